// Package lincheck checks recorded per-key histories of a versioned register:
// (a) direct version rules in O(n log n), (b) porcupine against a small
// sequential model. A disagreement between the two is reported as a checker
// fault (inconclusive), never silently resolved.
package lincheck

import (
	"fmt"
	"sort"
	"time"

	"github.com/anishathalye/porcupine"
)

// Op is one client operation on one key. Inv/Res are ticks of one global atomic
// counter taken before the call and after the return.
type Op struct {
	Client int    `json:"c"`
	Kind   string `json:"k"` // set | del | get | getmem
	Key    string `json:"key"`
	ID     string `json:"id,omitempty"` // value id written (set)
	Inv    int64  `json:"inv"`
	Res    int64  `json:"res"`
	// result
	Accepted bool   `json:"acc,omitempty"` // set/del: a record was written
	Ver      int32  `json:"ver,omitempty"` // write: version assigned; read: version observed (0 = no entry)
	GotID    string `json:"got,omitempty"` // read: id of the value returned ("" for miss/tombstone)
	ValueOK  bool   `json:"vok,omitempty"` // read: the bytes passed the self-check
	Err      string `json:"err,omitempty"`
	Final    bool   `json:"final,omitempty"` // issued after all clients stopped
}

type Violation struct {
	Sig    string
	Detail string
}

func abs(v int32) int32 {
	if v < 0 {
		return -v
	}
	return v
}

func (o Op) String() string {
	switch o.Kind {
	case "set":
		return fmt.Sprintf("[c%d %d..%d] set %s -> accepted=%v ver=%d %s", o.Client, o.Inv, o.Res, o.ID, o.Accepted, o.Ver, o.Err)
	case "del":
		return fmt.Sprintf("[c%d %d..%d] delete -> accepted=%v ver=%d %s", o.Client, o.Inv, o.Res, o.Accepted, o.Ver, o.Err)
	}
	f := ""
	if o.Final {
		f = " (final)"
	}
	return fmt.Sprintf("[c%d %d..%d] %s -> ver=%d value=%q ok=%v %s%s", o.Client, o.Inv, o.Res, o.Kind, o.Ver, o.GotID, o.ValueOK, o.Err, f)
}

// CheckKey applies the version rules to the history of one key (fresh store:
// the key starts without an entry).
func CheckKey(key string, ops []Op) (viols []Violation) {
	add := func(sig, format string, a ...interface{}) {
		viols = append(viols, Violation{sig, fmt.Sprintf("key %q: ", key) + fmt.Sprintf(format, a...)})
	}
	var writes, reads []Op
	for _, o := range ops {
		if o.Err != "" {
			add("op-error:"+o.Kind, "operation returned an internal error: %s", o)
			continue
		}
		switch o.Kind {
		case "set", "del":
			if o.Accepted {
				writes = append(writes, o)
			} else {
				// a refused delete observed "not live": treated as a read of liveness only
			}
		default:
			reads = append(reads, o)
		}
	}
	byVer := map[int32]Op{}
	for _, w := range writes {
		v := abs(w.Ver)
		if w.Kind == "set" && w.Ver <= 0 || w.Kind == "del" && w.Ver >= 0 {
			add("write-version-sign", "%s", w)
		}
		if prev, dup := byVer[v]; dup {
			add("duplicate-version", "two accepted writes got the same version %d:\n  %s\n  %s", v, prev, w)
		}
		byVer[v] = w
	}
	for v := int32(1); v <= int32(len(byVer)); v++ {
		if _, ok := byVer[v]; !ok && len(viols) == 0 {
			add("version-gap", "%d accepted writes but no write has version %d (versions are not dense)", len(writes), v)
			break
		}
	}
	// real-time order of writes: res(w1) < inv(w2) => |v1| < |v2|
	sort.Slice(writes, func(i, j int) bool { return writes[i].Res < writes[j].Res })
	// maxVerBefore(t) = largest |ver| among writes with Res < t
	type pt struct {
		res int64
		max int32
		op  Op
	}
	var prefix []pt
	var cur int32
	var curOp Op
	for _, w := range writes {
		if abs(w.Ver) > cur {
			cur, curOp = abs(w.Ver), w
		}
		prefix = append(prefix, pt{w.Res, cur, curOp})
	}
	maxBefore := func(t int64) (int32, Op) {
		i := sort.Search(len(prefix), func(i int) bool { return prefix[i].res >= t })
		if i == 0 {
			return 0, Op{}
		}
		return prefix[i-1].max, prefix[i-1].op
	}
	for _, w := range writes {
		if m, mop := maxBefore(w.Inv); m >= abs(w.Ver) {
			add("write-order", "a write acknowledged before another was issued got the larger version:\n  earlier: %s\n  later:   %s", mop, w)
		}
	}
	// reads
	sort.Slice(reads, func(i, j int) bool { return reads[i].Res < reads[j].Res })
	var rprefix []pt
	cur = 0
	for _, r := range reads {
		x := abs(r.Ver)
		if r.Ver != 0 {
			w, ok := byVer[x]
			switch {
			case !ok:
				add("read-unknown-version", "a read observed version %d that no accepted write was assigned: %s", r.Ver, r)
			case w.Inv > r.Res:
				add("read-from-future", "a read returned a write that was invoked only after the read had returned:\n  read:  %s\n  write: %s", r, w)
			case (w.Ver < 0) != (r.Ver < 0):
				add("read-version-sign", "read %s vs write %s", r, w)
			case r.Kind == "get" && r.Ver > 0 && (r.GotID != w.ID || !r.ValueOK):
				add("read-wrong-value", "a read of version %d returned bytes that are not the value of the write with that version (torn, stale, freed or another key's bytes):\n  read:  %s\n  write: %s", r.Ver, r, w)
			}
		} else if r.GotID != "" {
			add("read-value-without-entry", "%s", r)
		}
		if m, mop := maxBefore(r.Inv); m > x {
			add("stale-read", "a read returned something older than the latest write acknowledged before the read began:\n  read:               %s\n  acknowledged write: %s", r, mop)
		}
		// monotone reads in real time
		i := sort.Search(len(rprefix), func(i int) bool { return rprefix[i].res >= r.Inv })
		if i > 0 && rprefix[i-1].max > x {
			add("non-monotone-reads", "a later read went back in versions:\n  earlier read: %s\n  later read:   %s", rprefix[i-1].op, r)
		}
		if x > cur {
			cur, curOp = x, r
		}
		rprefix = append(rprefix, pt{r.Res, cur, curOp})
		if r.Final && x != int32(len(byVer)) && len(viols) == 0 {
			add("final-not-highest", "after all clients stopped the key shows version %d, the highest assigned version is %d: %s", r.Ver, len(byVer), r)
		}
	}
	return
}

// ---- porcupine ----

type regState struct {
	ver int32 // 0 none, >0 live, <0 tombstone
	id  string
}

type regIn struct {
	kind  string
	id    string
	nover bool // the boundary does not report the version a write was assigned (text protocol)
}

type regOut struct {
	accepted bool
	ver      int32
	id       string
}

var model = porcupine.Model{
	Init: func() interface{} { return regState{} },
	Step: func(st, in, out interface{}) (bool, interface{}) {
		s, i, o := st.(regState), in.(regIn), out.(regOut)
		switch i.kind {
		case "set":
			nv := abs(s.ver) + 1
			return o.accepted && (i.nover || o.ver == nv), regState{nv, i.id}
		case "del":
			if s.ver > 0 {
				nv := -(abs(s.ver) + 1)
				return o.accepted && (i.nover || o.ver == nv), regState{nv, ""}
			}
			return !o.accepted, s
		case "get":
			if i.nover { // a protocol get shows the bytes only
				if s.ver > 0 {
					return o.id == s.id, s
				}
				return o.id == "", s
			}
			if s.ver > 0 {
				return o.ver == s.ver && o.id == s.id, s
			}
			return o.ver == s.ver && o.id == "", s
		case "getmem":
			return o.ver == s.ver, s
		}
		return false, s
	},
	Equal: func(a, b interface{}) bool { return a.(regState) == b.(regState) },
	DescribeOperation: func(in, out interface{}) string {
		return fmt.Sprintf("%+v -> %+v", in, out)
	},
}

// Porcupine checks one key's history with porcupine; result is "ok", "illegal"
// or "unknown" (timeout).
func Porcupine(ops []Op, timeout time.Duration) string {
	return porcupineRun(ops, timeout, false)
}

// PorcupineProto checks a history recorded at the text-protocol boundary: writes
// report accepted / refused only, a get reports the bytes only, a meta-get
// (kind "getmem") reports the version; the sequential model is the same register.
func PorcupineProto(ops []Op, timeout time.Duration) string {
	return porcupineRun(ops, timeout, true)
}

func porcupineRun(ops []Op, timeout time.Duration, nover bool) string {
	var pops []porcupine.Operation
	for _, o := range ops {
		if o.Err != "" {
			continue
		}
		out := regOut{accepted: o.Accepted, ver: o.Ver, id: o.GotID}
		pops = append(pops, porcupine.Operation{ClientId: o.Client, Input: regIn{o.Kind, o.ID, nover}, Call: o.Inv, Output: out, Return: o.Res})
	}
	switch porcupine.CheckOperationsTimeout(model, pops, timeout) {
	case porcupine.Ok:
		return "ok"
	case porcupine.Illegal:
		return "illegal"
	}
	return "unknown"
}
