package ref

import (
	"strconv"
	"unicode"
)

// Entry is the model state of one key. Ver > 0: live; Ver < 0: tombstone.
type Entry struct {
	Ver   int32
	Value []byte
	Flag  uint32
}

// RefMap is the plain reference map of property C01, written from its statement.
type RefMap struct {
	CheckVHash bool
	M          map[string]*Entry
	// LastWrite records, per key, the last accepted write (used by C18: it is
	// kept apart from the tombstone adoption done for reads).
	LastWrite map[string]Entry
}

func NewRefMap(checkVHash bool) *RefMap {
	return &RefMap{CheckVHash: checkVHash, M: map[string]*Entry{}, LastWrite: map[string]Entry{}}
}

func ValidKey(key string) bool {
	if len(key) == 0 || len(key) > MaxKeyLen {
		return false
	}
	if key[0] <= ' ' || key[0] == '?' || key[0] == '@' {
		return false
	}
	for _, r := range key {
		if unicode.IsControl(r) || unicode.IsSpace(r) {
			return false
		}
	}
	return true
}

func abs32(v int32) int32 {
	if v < 0 {
		return -v
	}
	return v
}

type SetResult struct {
	Stored   bool // reply STORED
	Accepted bool // a new record was written
	TreeOnly bool // check_vhash: same value hash, only the version may move
	Ver      int32
}

// Set applies "set key value flags rev". rev == 0 means auto-increment.
func (m *RefMap) Set(key string, val []byte, flag uint32, rev int32) SetResult {
	if !ValidKey(key) {
		return SetResult{}
	}
	e := m.M[key]
	old := int32(0)
	if e != nil {
		old = e.Ver
	}
	if m.CheckVHash && e != nil && old > 0 && ValueHash(val) == ValueHash(e.Value) {
		// "not really set if vhash is the same": the value is not rewritten. An
		// explicit revision may move the version, only upwards.
		r := SetResult{Stored: true, TreeOnly: true, Ver: old}
		if rev != 0 && abs32(rev) > abs32(old) {
			e.Ver = rev
			r.Ver = rev
		}
		return r
	}
	var nv int32
	if rev == 0 {
		nv = abs32(old) + 1
	} else {
		if abs32(rev) <= abs32(old) {
			return SetResult{Stored: true, Ver: old} // rejected revision: nothing changes
		}
		nv = rev
	}
	ne := &Entry{Ver: nv, Value: append([]byte(nil), val...), Flag: flag}
	m.M[key] = ne
	m.LastWrite[key] = *ne
	return SetResult{Stored: true, Accepted: true, Ver: nv}
}

// Delete returns true for DELETED, false for NOT_FOUND.
func (m *RefMap) Delete(key string) bool {
	if !ValidKey(key) {
		return false
	}
	e := m.M[key]
	if e == nil || e.Ver < 0 {
		return false
	}
	ne := &Entry{Ver: -(abs32(e.Ver) + 1)}
	m.M[key] = ne
	m.LastWrite[key] = *ne
	return true
}

// Incr models read-parse-add-write with the dedicated flag. wrote tells whether
// a record was written; the version after an incr is adopted from observation.
func (m *RefMap) Incr(key string, delta int) (result int, wrote bool) {
	if !ValidKey(key) {
		return 0, false
	}
	e := m.M[key]
	val := delta
	ver := int32(1)
	if e != nil && e.Ver > 0 {
		if e.Flag != FlagIncr || len(e.Value) > 22 {
			return 0, false
		}
		v, err := strconv.Atoi(string(e.Value))
		if err != nil {
			return 0, false
		}
		val = v + delta
		ver = e.Ver + 1
	}
	ne := &Entry{Ver: ver, Value: []byte(strconv.Itoa(val)), Flag: FlagIncr}
	m.M[key] = ne
	m.LastWrite[key] = *ne
	return val, true
}

func (m *RefMap) Get(key string) (val []byte, flag uint32, found bool) {
	e := m.M[key]
	if e == nil || e.Ver < 0 {
		return nil, 0, false
	}
	return e.Value, e.Flag, true
}

// Keys returns all keys the model knows (live or tombstone), unsorted.
func (m *RefMap) Keys() []string {
	ks := make([]string, 0, len(m.M))
	for k := range m.M {
		ks = append(ks, k)
	}
	return ks
}

func (m *RefMap) Clone() *RefMap {
	c := NewRefMap(m.CheckVHash)
	for k, e := range m.M {
		ce := *e
		c.M[k] = &ce
	}
	for k, e := range m.LastWrite {
		c.LastWrite[k] = e
	}
	return c
}
