package ref

import (
	"encoding/binary"
	"errors"
	"fmt"
)

// Documented beansdb data-record layout (little endian):
//
//	crc32 | timestamp | flag | version | key size | value size | key | value | zero padding to 256
//
// The CRC covers everything from the timestamp to the end of the value.
const (
	RecHeader          = 24
	Block              = 256
	FlagCompress       = 0x00010000
	FlagClientCompress = 0x10
	FlagIncr           = 0x204
	MaxKeyLen          = 250
)

type Record struct {
	Key   []byte
	Value []byte // as stored (possibly server-compressed when Flag has FlagCompress)
	Flag  uint32
	Ver   int32
	TS    uint32
}

func RecordSizes(ksz, vsz int) (raw, padded uint32) {
	raw = uint32(RecHeader + ksz + vsz)
	padded = (raw + Block - 1) / Block * Block
	return
}

// Encode returns the padded on-disk form of r.
func (r *Record) Encode() []byte {
	raw, padded := RecordSizes(len(r.Key), len(r.Value))
	b := make([]byte, padded)
	binary.LittleEndian.PutUint32(b[4:], r.TS)
	binary.LittleEndian.PutUint32(b[8:], r.Flag)
	binary.LittleEndian.PutUint32(b[12:], uint32(r.Ver))
	binary.LittleEndian.PutUint32(b[16:], uint32(len(r.Key)))
	binary.LittleEndian.PutUint32(b[20:], uint32(len(r.Value)))
	copy(b[RecHeader:], r.Key)
	copy(b[RecHeader+len(r.Key):], r.Value)
	binary.LittleEndian.PutUint32(b[0:], CRC32(b[4:raw]))
	return b
}

var (
	ErrShort   = errors.New("short")
	ErrKeySize = errors.New("bad key size")
	ErrValSize = errors.New("bad value size")
	ErrCRC     = errors.New("crc mismatch")
)

// DecodeAt decodes the record starting at data[off]. maxVal is the configured
// maximum value size. The record must lie completely (unpadded part) inside data.
func DecodeAt(data []byte, off int, maxVal uint32) (rec *Record, padded uint32, err error) {
	if off+RecHeader > len(data) {
		return nil, 0, ErrShort
	}
	h := data[off : off+RecHeader]
	ksz := binary.LittleEndian.Uint32(h[16:])
	vsz := binary.LittleEndian.Uint32(h[20:])
	if ksz == 0 || ksz > MaxKeyLen {
		return nil, 0, ErrKeySize
	}
	if vsz > maxVal {
		return nil, 0, ErrValSize
	}
	raw, pad := RecordSizes(int(ksz), int(vsz))
	if off+int(raw) > len(data) {
		return nil, 0, ErrShort
	}
	if binary.LittleEndian.Uint32(h[0:]) != CRC32(data[off+4:off+int(raw)]) {
		return nil, 0, ErrCRC
	}
	rec = &Record{
		TS:   binary.LittleEndian.Uint32(h[4:]),
		Flag: binary.LittleEndian.Uint32(h[8:]),
		Ver:  int32(binary.LittleEndian.Uint32(h[12:])),
	}
	rec.Key = append([]byte(nil), data[off+RecHeader:off+RecHeader+int(ksz)]...)
	rec.Value = append([]byte(nil), data[off+RecHeader+int(ksz):off+int(raw)]...)
	return rec, pad, nil
}

type Scanned struct {
	Off  uint32
	Size uint32 // padded size
	Rec  *Record
}

// ScanFile walks a data file image on 256-byte boundaries and returns every
// record that decodes with a valid CRC, in file order. A region that does not
// decode is skipped block by block. tornTail reports that the file does not end
// on a block boundary or that its last blocks do not form a complete record.
func ScanFile(data []byte, maxVal uint32) (recs []Scanned, tornTail bool) {
	off := 0
	lastEnd := 0
	for off < len(data) {
		rec, pad, err := DecodeAt(data, off, maxVal)
		if err == nil {
			recs = append(recs, Scanned{uint32(off), pad, rec})
			off += int(pad)
			lastEnd = off
			continue
		}
		off += Block
	}
	if len(data)%Block != 0 || lastEnd < len(data) {
		tornTail = true
	}
	return
}

func (r *Record) String() string {
	return fmt.Sprintf("{key %q ver %d flag %#x ts %d vsz %d}", r.Key, r.Ver, r.Flag, r.TS, len(r.Value))
}
