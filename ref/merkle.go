package ref

import (
	"fmt"
	"sort"
	"strings"
)

// Reference recomputation of the synchronisation listing ("get @<hexprefix>").
//
// A store with N = 16^d buckets keeps one tree of height H per bucket. The leaf
// of a key is named by the first d+H-1 hex digits of its key hash. Definitions
// (from the documented behaviour):
//
//	leaf hash   = sum over live items of vhash * bits32..47(keyhash)   (mod 2^16)
//	leaf count  = number of live items (version > 0)
//	inner node  = count: sum of the 16 children; hash: fold of the children's
//	              hashes, multiplying the accumulator by 97 before each addition
//	              only when the node's count exceeds 256
//	upper tree  = over the bucket roots, always multiplying by 97
//
// A listing at a prefix shows the 16 children (hash, count) when the node is not
// a leaf and has at least 256 live keys, otherwise the items under the prefix.
type MItem struct {
	Hash  uint64
	Ver   int32
	Vhash uint16
}

type Merkle struct {
	Depth  int // hex digits naming the bucket (0, 1 or 2)
	Height int
	Served map[int]bool // nil = all buckets served
	Items  []MItem      // content: live items and tombstones (Ver < 0)
}

const listKeysThreshold = 256

func digits(h uint64, n int) []int {
	d := make([]int, n)
	for i := 0; i < n; i++ {
		d[i] = int(h>>uint(60-4*i)) & 0xf
	}
	return d
}

func hasPrefix(h uint64, prefix []int) bool {
	for i, p := range prefix {
		if int(h>>uint(60-4*i))&0xf != p {
			return false
		}
	}
	return true
}

func (m *Merkle) bucketServed(prefix []int) bool {
	if m.Served == nil {
		return true
	}
	b := 0
	for i := 0; i < m.Depth; i++ {
		b = b*16 + prefix[i]
	}
	return m.Served[b]
}

// node computes (hash, count) of the bucket-tree node named by prefix
// (len(prefix) between Depth and Depth+Height-1).
func (m *Merkle) node(prefix []int) (hash uint16, count uint32) {
	if !m.bucketServed(prefix) {
		return 0, 0
	}
	var under []MItem
	for _, it := range m.Items {
		if it.Ver > 0 && hasPrefix(it.Hash, prefix) {
			under = append(under, it)
		}
	}
	return m.nodeOf(len(prefix), under)
}

// nodeOf folds the live items that lie under a node at the given digit level.
func (m *Merkle) nodeOf(level int, under []MItem) (hash uint16, count uint32) {
	if len(under) == 0 {
		return 0, 0
	}
	if level == m.Depth+m.Height-1 { // leaf
		for _, it := range under {
			hash += it.Vhash * uint16(it.Hash>>32)
			count++
		}
		return
	}
	var parts [16][]MItem
	for _, it := range under {
		d := int(it.Hash>>uint(60-4*level)) & 0xf
		parts[d] = append(parts[d], it)
	}
	var hs [16]uint16
	for i := 0; i < 16; i++ {
		h, c := m.nodeOf(level+1, parts[i])
		hs[i] = h
		count += c
	}
	for i := 0; i < 16; i++ {
		if count > 256 {
			hash *= 97
		}
		hash += hs[i]
	}
	return
}

// upper computes (hash, count) of a node of the tree above the bucket roots
// (len(prefix) <= Depth).
func (m *Merkle) upper(prefix []int) (hash uint16, count uint32) {
	if len(prefix) == m.Depth {
		return m.node(prefix)
	}
	for i := 0; i < 16; i++ {
		h, c := m.upper(append(append([]int{}, prefix...), i))
		hash *= 97
		hash += h
		count += c
	}
	return
}

// Listing is the expected reply for one prefix.
type Listing struct {
	Kind  string   // "nodes", "items", "empty" (unserved bucket / nothing)
	Nodes []string // 16 lines "i/ hash count" (exact)
	Live  []string // item lines "hash16 vhash ver" of live keys (must all be present, exactly)
	Tombs map[uint64]bool
}

func (m *Merkle) List(prefix []int) Listing {
	l := len(prefix)
	if l < m.Depth {
		var lines []string
		for i := 0; i < 16; i++ {
			h, c := m.upper(append(append([]int{}, prefix...), i))
			lines = append(lines, fmt.Sprintf("%x/ %d %d", i, h, c))
		}
		return Listing{Kind: "nodes", Nodes: lines}
	}
	if !m.bucketServed(prefix) {
		return Listing{Kind: "empty"}
	}
	nl := l
	if nl > m.Depth+m.Height-1 {
		nl = m.Depth + m.Height - 1
	}
	np := prefix[:nl]
	_, count := m.node(np)
	isLeaf := nl == m.Depth+m.Height-1
	if isLeaf || count < listKeysThreshold {
		out := Listing{Kind: "items", Tombs: map[uint64]bool{}}
		for _, it := range m.Items {
			if !hasPrefix(it.Hash, prefix) {
				continue
			}
			if it.Ver > 0 {
				out.Live = append(out.Live, fmt.Sprintf("%016x %d %d", it.Hash, it.Vhash, it.Ver))
			} else {
				out.Tombs[it.Hash] = true
			}
		}
		sort.Strings(out.Live)
		return out
	}
	var lines []string
	for i := 0; i < 16; i++ {
		h, c := m.node(append(append([]int{}, np...), i))
		lines = append(lines, fmt.Sprintf("%x/ %d %d", i, h, c))
	}
	return Listing{Kind: "nodes", Nodes: lines}
}

// CheckListing compares the bytes the store returned for a prefix with the
// expected listing; it returns "" when they agree.
func (want Listing) Check(got []byte) string {
	text := strings.TrimRight(string(got), "\n")
	var lines []string
	if text != "" {
		lines = strings.Split(text, "\n")
	}
	switch want.Kind {
	case "empty":
		if len(lines) != 0 {
			return fmt.Sprintf("expected an empty listing, got %d lines (first %q)", len(lines), lines[0])
		}
		return ""
	case "nodes":
		if len(lines) != 16 {
			return fmt.Sprintf("expected 16 node lines, got %d lines (first %q)", len(lines), first(lines))
		}
		for i := range lines {
			if lines[i] != want.Nodes[i] {
				return fmt.Sprintf("node line %d is %q, reference recomputation says %q", i, lines[i], want.Nodes[i])
			}
		}
		return ""
	}
	// items: live part exact as a set; extra lines must be tombstones of keys the model knows as deleted
	gotLive := []string{}
	for _, ln := range lines {
		var h uint64
		var vh, ver int64
		if n, _ := fmt.Sscanf(ln, "%x %d %d", &h, &vh, &ver); n != 3 || len(strings.Fields(ln)[0]) != 16 {
			return fmt.Sprintf("malformed item line %q", ln)
		}
		if ver > 0 {
			gotLive = append(gotLive, ln)
		} else if !want.Tombs[h] {
			return fmt.Sprintf("item line %q has a non-positive version but the reference knows no deleted key with that hash under the prefix", ln)
		}
	}
	sort.Strings(gotLive)
	if len(gotLive) != len(want.Live) {
		return fmt.Sprintf("listing has %d live items, reference has %d (first difference: %s)", len(gotLive), len(want.Live), firstDiff(gotLive, want.Live))
	}
	for i := range gotLive {
		if gotLive[i] != want.Live[i] {
			return fmt.Sprintf("live item %q, reference says %q", gotLive[i], want.Live[i])
		}
	}
	return ""
}

func first(l []string) string {
	if len(l) == 0 {
		return ""
	}
	return l[0]
}

func firstDiff(a, b []string) string {
	i := 0
	for i < len(a) && i < len(b) && a[i] == b[i] {
		i++
	}
	x, y := "<none>", "<none>"
	if i < len(a) {
		x = a[i]
	}
	if i < len(b) {
		y = b[i]
	}
	return fmt.Sprintf("store %q vs reference %q", x, y)
}

// PrefixString renders digits as the hex path used by "get @path".
func PrefixString(p []int) string {
	var sb strings.Builder
	for _, d := range p {
		sb.WriteByte("0123456789abcdef"[d])
	}
	return sb.String()
}

// Digits returns the first n hex digits of a key hash.
func Digits(h uint64, n int) []int { return digits(h, n) }
