package ref

import "hash/crc32"

// Fnv1aSigned is the historical beansdb FNV-1a variant: every input byte is
// sign-extended (C `char`) before being xor-ed into the 32-bit state.
func Fnv1aSigned(data []byte) uint32 {
	h := uint32(0x811c9dc5)
	for _, b := range data {
		var x uint32
		if b >= 0x80 {
			x = 0xffffff00 | uint32(b)
		} else {
			x = uint32(b)
		}
		h ^= x
		h *= 0x01000193
	}
	return h
}

// Murmur3_32 is MurmurHash3_x86_32 with seed 0 (written from the public
// reference description).
func Murmur3_32(data []byte) uint32 {
	const c1, c2 = 0xcc9e2d51, 0x1b873593
	h := uint32(0)
	n := len(data)
	nb := n / 4
	for i := 0; i < nb; i++ {
		k := uint32(data[4*i]) | uint32(data[4*i+1])<<8 | uint32(data[4*i+2])<<16 | uint32(data[4*i+3])<<24
		k *= c1
		k = k<<15 | k>>17
		k *= c2
		h ^= k
		h = h<<13 | h>>19
		h = h*5 + 0xe6546b64
	}
	tail := data[4*nb:]
	var k uint32
	switch len(tail) {
	case 3:
		k ^= uint32(tail[2]) << 16
		fallthrough
	case 2:
		k ^= uint32(tail[1]) << 8
		fallthrough
	case 1:
		k ^= uint32(tail[0])
		k *= c1
		k = k<<15 | k>>17
		k *= c2
		h ^= k
	}
	h ^= uint32(n)
	h ^= h >> 16
	h *= 0x85ebca6b
	h ^= h >> 13
	h *= 0xc2b2ae35
	h ^= h >> 16
	return h
}

// KeyHash is the 64-bit key hash: signed FNV-1a in the high half, Murmur3-32 in
// the low half.
func KeyHash(key []byte) uint64 {
	return uint64(Fnv1aSigned(key))<<32 | uint64(Murmur3_32(key))
}

// ValueHash is the 16-bit value hash: len*97 + fnv of the whole value when it is
// at most 1024 bytes, otherwise (len*97 + fnv(first 512))*97 + fnv(last 512).
func ValueHash(v []byte) uint16 {
	l := len(v)
	h := uint32(l) * 97
	if l <= 1024 {
		h += Fnv1aSigned(v)
	} else {
		h += Fnv1aSigned(v[:512])
		h *= 97
		h += Fnv1aSigned(v[l-512:])
	}
	return uint16(h)
}

// CRC32 is the IEEE reflected CRC-32 (standard library).
func CRC32(parts ...[]byte) uint32 {
	c := uint32(0)
	for _, p := range parts {
		c = crc32.Update(c, crc32.IEEETable, p)
	}
	return c
}

// CRC32Bitwise is a table-free IEEE CRC-32, a second independent reference.
func CRC32Bitwise(parts ...[]byte) uint32 {
	c := ^uint32(0)
	for _, p := range parts {
		for _, b := range p {
			c ^= uint32(b)
			for i := 0; i < 8; i++ {
				if c&1 != 0 {
					c = c>>1 ^ 0xEDB88320
				} else {
					c >>= 1
				}
			}
		}
	}
	return ^c
}
