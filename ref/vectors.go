package ref

import "fmt"

// SelfTest checks the reference implementations against published test vectors.
// A failure means the *reference* is wrong, which makes every verdict that
// depends on it inconclusive (never a violation).
func SelfTest() error {
	type v32 struct {
		in   string
		want uint32
	}
	for _, v := range []v32{{"", 0}, {"test", 0xba6bd213}, {"Hello, world!", 0xc0363e43},
		{"The quick brown fox jumps over the lazy dog", 0x2e4ff723}} {
		if g := Murmur3_32([]byte(v.in)); g != v.want {
			return fmt.Errorf("murmur3 reference: %q -> %#x want %#x", v.in, g, v.want)
		}
	}
	// FNV-1a 32 published vectors (ASCII, where the signed quirk is invisible)
	for _, v := range []v32{{"", 0x811c9dc5}, {"a", 0xe40c292c}, {"foobar", 0xbf9cf968}} {
		if g := Fnv1aSigned([]byte(v.in)); g != v.want {
			return fmt.Errorf("fnv1a reference: %q -> %#x want %#x", v.in, g, v.want)
		}
	}
	// signed quirk: byte 0x80 is xor-ed as 0xffffff80
	x := uint32(0x811c9dc5) ^ 0xffffff80
	if g, w := Fnv1aSigned([]byte{0x80}), x*0x01000193; g != w {
		return fmt.Errorf("fnv1a signed reference: %#x want %#x", g, w)
	}
	if g := CRC32([]byte("123456789")); g != 0xCBF43926 {
		return fmt.Errorf("crc32 reference: %#x", g)
	}
	if g := CRC32Bitwise([]byte("123456789")); g != 0xCBF43926 {
		return fmt.Errorf("bitwise crc32 reference: %#x", g)
	}
	return nil
}
