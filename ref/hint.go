package ref

import (
	"encoding/binary"
	"fmt"
	"sort"
)

// Hint file layout: 16-byte header (index offset u64, item count u32, data size
// u32), items in (key hash, key) order, then a sparse index of (key hash, file
// offset) pairs. An item is: key hash u64, chunk u32, offset u32, version i32,
// value hash u16, key length u8, key.
type HintItem struct {
	Keyhash uint64
	Chunk   uint32
	Offset  uint32
	Ver     int32
	Vhash   uint16
	Key     string
}

type HintFile struct {
	IndexOffset uint64
	NumKey      uint32
	DataSize    uint32
	Items       []HintItem
	ItemOffsets []uint64
	Index       []HintIndexEntry
}

type HintIndexEntry struct {
	Keyhash uint64
	Offset  uint64
}

func ParseHintFile(b []byte) (*HintFile, error) {
	if len(b) < 16 {
		return nil, fmt.Errorf("short hint file (%d bytes)", len(b))
	}
	hf := &HintFile{
		IndexOffset: binary.LittleEndian.Uint64(b[0:]),
		NumKey:      binary.LittleEndian.Uint32(b[8:]),
		DataSize:    binary.LittleEndian.Uint32(b[12:]),
	}
	if hf.IndexOffset < 16 || hf.IndexOffset > uint64(len(b)) {
		return nil, fmt.Errorf("index offset %d outside file of %d bytes", hf.IndexOffset, len(b))
	}
	off := uint64(16)
	for off < hf.IndexOffset {
		if off+23 > hf.IndexOffset {
			return nil, fmt.Errorf("item header crosses the index offset at %d", off)
		}
		h := b[off:]
		it := HintItem{
			Keyhash: binary.LittleEndian.Uint64(h[0:]),
			Chunk:   binary.LittleEndian.Uint32(h[8:]),
			Offset:  binary.LittleEndian.Uint32(h[12:]),
			Ver:     int32(binary.LittleEndian.Uint32(h[16:])),
			Vhash:   binary.LittleEndian.Uint16(h[20:]),
		}
		ksz := uint64(h[22])
		if off+23+ksz > hf.IndexOffset {
			return nil, fmt.Errorf("item key crosses the index offset at %d", off)
		}
		it.Key = string(h[23 : 23+ksz])
		hf.Items = append(hf.Items, it)
		hf.ItemOffsets = append(hf.ItemOffsets, off)
		off += 23 + ksz
	}
	rest := b[hf.IndexOffset:]
	if len(rest)%16 != 0 {
		return nil, fmt.Errorf("index region of %d bytes is not a multiple of 16", len(rest))
	}
	for i := 0; i < len(rest); i += 16 {
		hf.Index = append(hf.Index, HintIndexEntry{binary.LittleEndian.Uint64(rest[i:]), binary.LittleEndian.Uint64(rest[i+8:])})
	}
	return hf, nil
}

// SortHintItems orders items by (key hash, key).
func SortHintItems(items []HintItem) {
	sort.SliceStable(items, func(i, j int) bool {
		if items[i].Keyhash != items[j].Keyhash {
			return items[i].Keyhash < items[j].Keyhash
		}
		return items[i].Key < items[j].Key
	})
}

// MergeHints is the reference merge: for each (key hash, key) the entry with the
// greatest (chunk, offset) position, output in (key hash, key) order; collisions
// lists every key hash shared by two or more different keys with the winning
// entry of each key.
func MergeHints(sources [][]HintItem) (out []HintItem, collisions map[uint64]map[string]HintItem) {
	type hk struct {
		h uint64
		k string
	}
	best := map[hk]HintItem{}
	for _, src := range sources {
		for _, it := range src {
			key := hk{it.Keyhash, it.Key}
			old, ok := best[key]
			if !ok || posKey(it) >= posKey(old) {
				best[key] = it
			}
		}
	}
	perHash := map[uint64]int{}
	for k, it := range best {
		out = append(out, it)
		perHash[k.h]++
	}
	SortHintItems(out)
	collisions = map[uint64]map[string]HintItem{}
	for _, it := range out {
		if perHash[it.Keyhash] > 1 {
			if collisions[it.Keyhash] == nil {
				collisions[it.Keyhash] = map[string]HintItem{}
			}
			collisions[it.Keyhash][it.Key] = it
		}
	}
	return
}

func posKey(it HintItem) int64 { return int64(it.Chunk)<<32 + int64(it.Offset) }
