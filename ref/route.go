package ref

// BucketOf returns the bucket a key hash is routed to: the leading hex digits
// of the hash (0 digits for 1 bucket, 1 for 16, 2 for 256).
func BucketOf(keyhash uint64, numBucket int) int {
	switch numBucket {
	case 1:
		return 0
	case 16:
		return int(keyhash >> 60)
	case 256:
		return int(keyhash >> 56)
	}
	panic("bad bucket count")
}
