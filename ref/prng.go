// Package ref holds reference implementations written from the documented
// beansdb formats and semantics. It shares no code with douban/gobeansdb and
// must never import it.
package ref

// Rand is a small splittable PRNG (splitmix64). All random choices of the
// verification machinery derive from VERIF_SEED through it.
type Rand struct{ s uint64 }

func NewRand(seed uint64) *Rand { return &Rand{s: seed*0x9E3779B97F4A7C15 + 0x1234567} }

func (r *Rand) Uint64() uint64 {
	r.s += 0x9E3779B97F4A7C15
	z := r.s
	z = (z ^ (z >> 30)) * 0xBF58476D1CE4E5B9
	z = (z ^ (z >> 27)) * 0x94D049BB133111EB
	return z ^ (z >> 31)
}

// Split derives an independent generator labelled by n.
func (r *Rand) Split(n uint64) *Rand {
	return NewRand(r.Uint64() ^ (n+1)*0xD6E8FEB86659FD93)
}

func (r *Rand) Intn(n int) int {
	if n <= 0 {
		return 0
	}
	return int(r.Uint64() % uint64(n))
}

func (r *Rand) Range(lo, hi int) int { // inclusive
	if hi <= lo {
		return lo
	}
	return lo + r.Intn(hi-lo+1)
}

func (r *Rand) Bool() bool        { return r.Uint64()&1 == 1 }
func (r *Rand) Chance(p int) bool { return r.Intn(100) < p } // p percent

func (r *Rand) Bytes(n int) []byte {
	b := make([]byte, n)
	for i := 0; i < n; i += 8 {
		v := r.Uint64()
		for j := 0; j < 8 && i+j < n; j++ {
			b[i+j] = byte(v >> (8 * j))
		}
	}
	return b
}

func (r *Rand) Perm(n int) []int {
	p := make([]int, n)
	for i := range p {
		p[i] = i
	}
	for i := n - 1; i > 0; i-- {
		j := r.Intn(i + 1)
		p[i], p[j] = p[j], p[i]
	}
	return p
}

// Pick returns one of the given ints.
func (r *Rand) Pick(xs ...int) int { return xs[r.Intn(len(xs))] }
