package ref

import "testing"

func TestSelf(t *testing.T) {
	if err := SelfTest(); err != nil {
		t.Fatal(err)
	}
}

func TestRecordRoundTrip(t *testing.T) {
	r := &Record{Key: []byte("k"), Value: []byte("hello"), Flag: 7, Ver: 3, TS: 99}
	b := r.Encode()
	if len(b) != 256 {
		t.Fatal(len(b))
	}
	recs, torn := ScanFile(append(b, b...), 1<<20)
	if torn || len(recs) != 2 || string(recs[1].Rec.Value) != "hello" || recs[1].Off != 256 {
		t.Fatal(recs, torn)
	}
}
