package ref

import (
	"bytes"
	"fmt"
)

// ValueSpec describes a generated value compactly (replay files stay small).
// Bytes are a pure function of the spec.
type ValueSpec struct {
	Class string `json:"c"` // const, periodic, text, random, wav, mp3, ogg, headtail, tailhead, num, raw
	Size  int    `json:"n"`
	Seed  uint64 `json:"s"`
	Tag   string `json:"t,omitempty"` // embedded near the start when room (key and sequence number)
	Raw   string `json:"raw,omitempty"`
}

var textWords = []string{"the", "quick", "brown", "fox", "jumps", "over", "lazy", "dog", "beansdb", "douban", "value", "record", "\r\n", "\n", " ", "  ", "key", "0123456789"}

// Build returns the bytes of the value.
func (v ValueSpec) Build() []byte {
	if v.Class == "raw" || v.Class == "num" {
		return []byte(v.Raw)
	}
	r := NewRand(v.Seed ^ 0xabcdef)
	n := v.Size
	out := make([]byte, 0, n)
	prefix := []byte{}
	switch v.Class {
	case "wav":
		prefix = []byte("RIFF\x24\x08\x00\x00WAVEfmt ")
	case "mp3":
		prefix = []byte("ID3\x03\x00\x00\x00\x00\x00\x21")
	case "ogg":
		prefix = []byte("OggS\x00\x02\x00\x00\x00\x00\x00\x00\x00\x00")
	}
	out = append(out, prefix...)
	if v.Tag != "" {
		out = append(out, []byte("<"+v.Tag+">")...)
	}
	fill := func(class string, upto int) {
		switch class {
		case "const":
			c := byte('a' + r.Intn(26))
			for len(out) < upto {
				out = append(out, c)
			}
		case "periodic":
			p := r.Bytes(r.Range(2, 40))
			for len(out) < upto {
				out = append(out, p...)
			}
		case "text":
			for len(out) < upto {
				out = append(out, textWords[r.Intn(len(textWords))]...)
				out = append(out, ' ')
			}
		case "binary0":
			for len(out) < upto {
				out = append(out, 0, '\r', '\n', 0, byte(r.Intn(4)))
			}
		default: // random
			out = append(out, r.Bytes(maxInt(upto-len(out), 0))...)
		}
		if len(out) > upto {
			out = out[:upto]
		}
	}
	switch v.Class {
	case "farrepeat":
		// a block (text followed by a stretch of random bytes) repeated at an exact distance:
		// the random stretch of every repetition can only be matched one period back, so the
		// compressor has to encode a match at exactly that distance (window / offset-field limits)
		p := FarRepeatPeriod(v.Seed, n)
		start := len(out)
		fill("text", start+p-p/8)
		fill("random", start+p)
		for len(out) < n {
			m := len(out) - p
			k := n - len(out)
			if k > p {
				k = p
			}
			out = append(out, out[m:m+k]...)
		}
	case "headtail": // compressible head, incompressible tail
		fill("text", n/2)
		fill("random", n)
	case "tailhead":
		fill("random", n/2)
		fill("text", n)
	case "wav", "mp3", "ogg":
		fill("periodic", n)
	default:
		fill(v.Class, n)
	}
	if len(out) > n {
		out = out[:n]
	}
	return out
}

// FarRepeatDistances are the repeat distances the "farrepeat" class aims at.
var FarRepeatDistances = []int{255, 256, 4095, 4096, 4097, 8191, 8192, 65534, 65535, 65536, 65537, 131070, 131071, 131072, 131073, 262143, 262144, 262145}

// FarRepeatPeriod returns the period used by class "farrepeat" for a value of n bytes:
// one of the boundary distances that fits twice into n (chosen by the seed), else n/2.
func FarRepeatPeriod(seed uint64, n int) int {
	var fit []int
	for _, d := range FarRepeatDistances {
		if 2*d <= n {
			fit = append(fit, d)
		}
	}
	if len(fit) == 0 || seed%5 == 0 {
		if n < 4 {
			return 1
		}
		return n/2 - int(seed>>8%3) // also distances that are no power of two
	}
	// prefer the largest distances that fit
	k := len(fit)
	if k > 4 {
		fit = fit[k-4:]
	}
	return fit[int(seed>>8)%len(fit)]
}

func maxInt(a, b int) int {
	if a > b {
		return a
	}
	return b
}

func (v ValueSpec) String() string {
	if v.Class == "raw" || v.Class == "num" {
		return fmt.Sprintf("%s:%q", v.Class, v.Raw)
	}
	return fmt.Sprintf("%s:%d:%d", v.Class, v.Size, v.Seed)
}

var ValueClasses = []string{"const", "periodic", "text", "random", "wav", "mp3", "ogg", "headtail", "tailhead", "binary0"}

// DiffBytes describes the first difference of two byte strings.
func DiffBytes(got, want []byte) string {
	if bytes.Equal(got, want) {
		return ""
	}
	d := 0
	for d < len(got) && d < len(want) && got[d] == want[d] {
		d++
	}
	return fmt.Sprintf("len %d want %d, first difference at byte %d", len(got), len(want), d)
}
