//go:build verif
// +build verif

package quicklz

import (
	"bytes"
	"fmt"
	"io/ioutil"
	"path/filepath"

	"verif/ref"
	"verif/vfc"
)

type vfQlzArgs struct {
	Codec   int // round-trip inputs
	MaxSize int
	Hostile int // hostile inputs
}

func vfSizeClass(n int) string {
	switch {
	case n == 0:
		return "0"
	case n < 16:
		return "<16"
	case n <= 256:
		return "<=256"
	case n < 10240:
		return "<10K"
	case n < 65536:
		return "<64K"
	case n < 1<<20:
		return "<1M"
	}
	return ">=1M"
}

func vfCodec(env *vfc.Env, r *ref.Rand, i int, maxSize int) {
	res := env.Res
	id := fmt.Sprintf("codec-%d", i)
	if !env.Want(id) {
		return
	}
	class := ref.ValueClasses[r.Intn(len(ref.ValueClasses))]
	var n int
	switch r.Intn(6) {
	case 0:
		n = r.Range(1, 20)
	case 1:
		n = r.Pick(200, 231, 232, 233, 255, 256, 257, 10239, 10240, 10241, 65535, 65536)
	case 2:
		n = r.Range(1, maxSize)
	default:
		n = r.Range(1, 20000)
	}
	seed := r.Uint64()
	if r.Intn(8) == 0 {
		// a repeat at an exact (boundary) distance: twice the distance plus a little
		class = "farrepeat"
		d := ref.FarRepeatDistances[r.Intn(len(ref.FarRepeatDistances))]
		for 2*d+5000 > maxSize {
			d /= 2
		}
		n = 2*d + r.Pick(0, 1, 7, 300, 5000) + r.Intn(2)*d
	}
	spec := ref.ValueSpec{Class: class, Size: n, Seed: seed}
	res.Begin(id, spec)
	src := spec.Build()
	if len(src) == 0 {
		return
	}
	res.Eval(1)
	replay := map[string]interface{}{"value": spec}
	c, ok := CCompress(src)
	if !ok {
		res.Inconc("CCompress allocation failed")
		return
	}
	cbody := append([]byte(nil), c.Body...)
	c.Free()
	if SizeCompressed(cbody) != len(cbody) || SizeDecompressed(cbody) != len(src) {
		res.Violate(id, "c10:c-header", fmt.Sprintf("C stream header says compressed %d decompressed %d, actual %d / %d", SizeCompressed(cbody), SizeDecompressed(cbody), len(cbody), len(src)), replay)
		return
	}
	g, err := DecompressSafe(cbody)
	if err != nil || !bytes.Equal(g, src) {
		res.Violate(id, "c10:c-to-go", fmt.Sprintf("Go decompressor on C output (%s): err %v %s", spec, err, ref.DiffBytes(g, src)), replay)
	}
	cd, err := CDecompressSafe(cbody)
	if err != nil || !bytes.Equal(cd.Body, src) {
		res.Violate(id, "c10:c-to-c", fmt.Sprintf("C decompressor on C output (%s): err %v %s", spec, err, ref.DiffBytes(cd.Body, src)), replay)
	}
	cd.Free()
	for _, level := range []int{1, 3} {
		gc := Compress(src, level)
		g2, err := DecompressSafe(gc)
		if err != nil || !bytes.Equal(g2, src) {
			res.Violate(id, fmt.Sprintf("c10:go%d-to-go", level), fmt.Sprintf("Go decompressor on Go level-%d output (%s): err %v %s", level, spec, err, ref.DiffBytes(g2, src)), replay)
		}
		if level == 3 { // the C library is built for level 3
			c2, err := CDecompressSafe(gc)
			if err != nil || !bytes.Equal(c2.Body, src) {
				res.Violate(id, "c10:go3-to-c", fmt.Sprintf("C decompressor on Go level-3 output (%s): err %v %s", spec, err, ref.DiffBytes(c2.Body, src)), replay)
			}
			c2.Free()
		}
	}
	compressed := "stored"
	if cbody[0]&1 == 1 {
		compressed = "compressed"
	}
	res.Seen(fmt.Sprintf("codec/%s/%s/%s", class, vfSizeClass(n), compressed))
	res.Event("codec."+compressed, 1)
	if i < 3 {
		res.Sample(map[string]interface{}{"case": id, "value": spec.String(), "c_compressed_len": len(cbody)})
	}
}

func vfPutHeader(b []byte, compressible bool, level int, sizeC, sizeD int) {
	b[0] = byte(2 | 1<<6 | level<<2)
	if compressible {
		b[0] |= 1
	}
	fastWrite(b, 1, sizeC, 4)
	fastWrite(b, 5, sizeD, 4)
}

func vfHostile(env *vfc.Env, r *ref.Rand, i int, curPath string) {
	res := env.Res
	id := fmt.Sprintf("hostile-%d", i)
	if !env.Want(id) {
		return
	}
	kind := ""
	var in []byte
	var orig []byte
	switch r.Intn(6) {
	case 0:
		kind = "random-bytes"
		in = r.Bytes(r.Pick(0, 1, 2, 3, 8, 9, 10, r.Range(0, 600)))
	case 1, 2:
		kind = "mutated-valid"
		spec := ref.ValueSpec{Class: ref.ValueClasses[r.Intn(4)], Size: r.Range(1, 3000), Seed: r.Uint64()}
		orig = spec.Build()
		if r.Bool() {
			c, _ := CCompress(orig)
			in = append([]byte(nil), c.Body...)
			c.Free()
		} else {
			in = Compress(orig, 3)
		}
		for k := r.Range(1, 4); k > 0 && len(in) > 9; k-- {
			p := r.Range(9, len(in)-1)
			if r.Bool() {
				in[p] ^= 1 << uint(r.Intn(8))
			} else {
				in[p] = byte(r.Uint64())
			}
		}
	case 3:
		kind = "truncated-valid"
		spec := ref.ValueSpec{Class: ref.ValueClasses[r.Intn(3)], Size: r.Range(20, 3000), Seed: r.Uint64()}
		orig = spec.Build()
		c, _ := CCompress(orig)
		in = append([]byte(nil), c.Body...)
		c.Free()
		if len(in) > 10 {
			in = in[:r.Range(9, len(in)-1)]
			fastWrite(in, 1, len(in), 4) // keep the header self-consistent
		}
	default:
		kind = "consistent-header-random-payload"
		n := r.Range(9, 400)
		in = r.Bytes(n)
		claimed := r.Pick(0, 1, 10, 100, r.Range(0, 5000), r.Range(0, 1<<20), 16<<20)
		vfPutHeader(in, r.Intn(4) > 0, r.Pick(3, 3, 1, 0, 2), n, claimed)
	}
	res.Begin(id, map[string]interface{}{"kind": kind, "input_hex": fmt.Sprintf("%x", in)})
	ioutil.WriteFile(curPath, in, 0644)
	res.Eval(1)
	replay := map[string]interface{}{"kind": kind, "input_hex": fmt.Sprintf("%x", in)}
	out, err := DecompressSafe(in)
	outcome := "go-error"
	if err == nil {
		outcome = "go-output"
		if len(in) >= 9 && len(out) != SizeDecompressed(in) {
			res.Violate(id, "c10:hostile-go-len", fmt.Sprintf("DecompressSafe returned %d bytes without error, header claims %d", len(out), SizeDecompressed(in)), replay)
		}
	}
	cout, cerr := CDecompressSafe(in)
	if cerr == nil {
		outcome += "/c-output"
		if len(in) >= 9 && len(cout.Body) != SizeDecompressed(in) {
			res.Violate(id, "c10:hostile-c-len", fmt.Sprintf("CDecompressSafe returned %d bytes without error, header claims %d", len(cout.Body), SizeDecompressed(in)), replay)
		}
	} else {
		outcome += "/c-error"
	}
	cout.Free()
	res.Seen("hostile/" + kind + "/" + outcome)
	res.Event("hostile."+kind, 1)
}

func vfC10(env *vfc.Env) {
	var a vfQlzArgs
	env.ParseArgs(&a)
	if a.MaxSize == 0 {
		a.MaxSize = 1 << 20
	}
	rnd := ref.NewRand(env.Seed)
	for i := 0; i < a.Codec; i++ {
		vfCodec(env, rnd.Split(uint64(i)), i, a.MaxSize)
	}
	cur := filepath.Join(env.Work, "cur_input.bin")
	for i := 0; i < a.Hostile; i++ {
		vfHostile(env, rnd.Split(uint64(1000000+i)), i, cur)
	}
}
