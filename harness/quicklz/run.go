//go:build verif
// +build verif

package quicklz

import "verif/vfc"

func VFRun(env *vfc.Env) {
	switch env.Mode {
	case "qlz.c10":
		vfC10(env)
	default:
		env.Res.Inconc("unknown mode " + env.Mode)
	}
}
