//go:build verif
// +build verif

package quicklz

import "verif/vfc"

func VFRun(env *vfc.Env) {
	switch env.Mode {
	default:
		env.Res.Inconc("unknown mode " + env.Mode)
	}
}
