//go:build verif
// +build verif

package gobeansdb

import (
	"bytes"
	"fmt"
	"path/filepath"
	"sort"
	"strings"

	"github.com/douban/gobeansdb/store"
	"verif/model"
	"verif/ref"
	"verif/vfc"
)

type vfC08Args struct {
	Cfg     store.VFConfig
	Cases   int
	MaxKeys int
}

type vfFinal struct {
	Key     string
	Val     *ref.ValueSpec
	Flag    uint32
	Ver     int32
	Deleted bool
}

// vfC08History builds one history that ends in the given final content.
func vfC08History(r *ref.Rand, final []vfFinal, variant int) []model.Op {
	var ops []model.Op
	order := r.Perm(len(final))
	if variant == 0 {
		for i := range order {
			order[i] = i
		}
	}
	seq := 0
	noise := func(f vfFinal) {
		for n := r.Intn(3); n > 0; n-- {
			seq++
			switch r.Intn(3) {
			case 0:
				ops = append(ops, model.Op{K: "set", Key: f.Key, Val: &ref.ValueSpec{Class: "text", Size: r.Range(0, 300), Seed: r.Uint64(), Tag: fmt.Sprint(seq)}})
			case 1:
				ops = append(ops, model.Op{K: "del", Key: f.Key})
			default:
				ops = append(ops, model.Op{K: "set", Key: f.Key, Val: f.Val, Flag: f.Flag}) // redundant write of the final value
			}
		}
	}
	// variants > 0 also list directories in the middle of the history and may
	// restart half way (tree dump loaded resp. rebuilt, then written to again):
	// cached node hashes/counts must never depend on when the tree was last
	// listed, dumped or loaded
	midRestart := -1
	if (variant == 1 || variant == 2) && r.Bool() && len(order) > 4 {
		midRestart = r.Range(len(order)/4, 3*len(order)/4)
	}
	listEvery := r.Pick(0, 7, 40, 150)
	for n, i := range order {
		f := final[i]
		if variant > 0 {
			noise(f)
			if r.Intn(20) == 0 {
				ops = append(ops, model.Op{K: "flush"})
			}
			if listEvery > 0 && r.Intn(listEvery) == 0 {
				d := ref.Digits(ref.KeyHash([]byte(final[order[r.Intn(len(order))]].Key)), 16)
				ops = append(ops, model.Op{K: "list", Key: ref.PrefixString(d[:r.Pick(0, 0, 1, 2, 3, r.Range(0, 6))])})
			}
			if n == midRestart {
				ops = append(ops, model.Op{K: "flush"}, model.Op{K: "restart", Rm: []string{"", "", "all"}[variant]})
			}
		}
		ops = append(ops, model.Op{K: "set", Key: f.Key, Val: f.Val, Flag: f.Flag, Rev: f.Ver})
		if f.Deleted {
			ops = append(ops, model.Op{K: "del", Key: f.Key})
		}
	}
	ops = append(ops, model.Op{K: "flush"})
	switch variant {
	case 1:
		ops = append(ops, model.Op{K: "restart", Rm: ""}) // tree dump loaded
	case 2:
		ops = append(ops, model.Op{K: "restart", Rm: "all"}) // everything rebuilt from the data files
	case 3:
		ops = append(ops, model.Op{K: "gc", Sel: r.Uint64() % 1000, Merge: r.Bool()}, model.Op{K: "restart", Rm: "hash"})
	case 4:
		ops = append(ops, model.Op{K: "hints"}, model.Op{K: "gc", Sel: r.Uint64() % 1000, Merge: r.Bool()}, model.Op{K: "gc", Sel: r.Uint64() % 1000, Merge: false})
	}
	return ops
}

func vfC08(env *vfc.Env) {
	var a vfC08Args
	env.ParseArgs(&a)
	vfQuiet()
	res := env.Res
	rnd := ref.NewRand(env.Seed)
	depth := map[int]int{1: 0, 16: 1, 256: 2}[a.Cfg.NumBucket]
	for c := 0; c < a.Cases; c++ {
		id := fmt.Sprintf("c%d", c)
		if !env.Want(id) {
			continue
		}
		r := rnd.Split(uint64(c))
		n := r.Pick(20, 60, 300, r.Range(300, a.MaxKeys))
		keys := vfKeysForServed(r, n, a.Cfg)
		var final []vfFinal
		for i, k := range keys {
			final = append(final, vfFinal{Key: k, Val: &ref.ValueSpec{Class: ref.ValueClasses[r.Intn(4)], Size: r.Pick(0, 5, 40, 200, r.Range(0, 600)), Seed: r.Uint64(), Tag: fmt.Sprint("f", i)},
				Flag: model.GenFlag(r), Ver: int32(20 + r.Intn(50)), Deleted: r.Intn(7) == 0})
		}
		served := map[int]bool{}
		for _, b := range a.Cfg.Served {
			served[b] = true
		}
		m := &ref.Merkle{Depth: depth, Height: a.Cfg.TreeHeight}
		if a.Cfg.Served != nil {
			m.Served = served
		}
		for _, f := range final {
			h := ref.KeyHash([]byte(f.Key))
			if f.Deleted {
				m.Items = append(m.Items, ref.MItem{Hash: h, Ver: -1})
			} else {
				m.Items = append(m.Items, ref.MItem{Hash: h, Ver: f.Ver, Vhash: ref.ValueHash(f.Val.Build())})
			}
		}
		// prefixes: everything from the root to one digit below the leaves along
		// sampled keys, deeper prefixes sampled, some absent ones
		prefixes := map[string]bool{"": true}
		leafDigits := depth + a.Cfg.TreeHeight - 1
		for i, f := range final {
			if i >= 40 {
				break
			}
			d := ref.Digits(ref.KeyHash([]byte(f.Key)), 16)
			for l := 0; l <= 16; l++ {
				if l <= leafDigits+1 || r.Intn(5) == 0 {
					prefixes[ref.PrefixString(d[:l])] = true
				}
			}
		}
		for i := 0; i < 8; i++ {
			prefixes[ref.PrefixString(ref.Digits(r.Uint64(), r.Range(0, 16)))] = true
		}
		var plist []string
		for p := range prefixes {
			plist = append(plist, p)
		}
		sort.Strings(plist)
		variants := []int{0, 1 + r.Intn(2), 3 + r.Intn(2)}
		caseInfo := map[string]interface{}{"cfg": a.Cfg, "keys": len(keys), "variants": variants}
		res.Begin(id, caseInfo)
		var first map[string][]byte
		for vi, v := range variants {
			ops := vfC08History(r.Split(uint64(v)), final, v)
			sut, err := vfOpenSUT(a.Cfg, filepath.Join(env.Work, fmt.Sprintf("%s-v%d", id, v)), res)
			if err != nil {
				res.Violate(id, "c08:open-error", err.Error(), caseInfo)
				break
			}
			run := model.NewRunner(sut, ref.NewRefMap(false), res, id, model.Options{Prefix: "c08", Replay: caseInfo})
			ok := run.Run(ops)
			if !ok {
				sut.Destroy()
				break
			}
			got := map[string][]byte{}
			for _, p := range plist {
				it, err := sut.sc.Get("@" + p)
				res.Eval(1)
				if err != nil {
					res.Violate(id, "c08:listdir-error", fmt.Sprintf("get @%s: %v", p, err), caseInfo)
					continue
				}
				var body []byte
				if it != nil {
					body = append([]byte(nil), it.Body...)
				}
				got[p] = body
				var digs []int
				for _, ch := range p {
					digs = append(digs, strings.IndexRune("0123456789abcdef", ch))
				}
				want := m.List(digs)
				if d := want.Check(body); d != "" {
					res.Violate(id, "c08:listing-vs-reference:"+want.Kind, fmt.Sprintf("history variant %d, prefix %q (%d buckets, height %d, %d keys): %s", v, p, a.Cfg.NumBucket, a.Cfg.TreeHeight, len(keys), d), caseInfo)
					continue
				}
				if vi > 0 && first != nil && want.Kind == "nodes" && !bytes.Equal(first[p], body) {
					res.Violate(id, "c08:history-dependent:nodes", fmt.Sprintf("prefix %q: history variants %d and %d list different node lines:\n%s--\n%s", p, variants[0], v, first[p], body), caseInfo)
				}
				lvl := "bucket-tree"
				if len(p) < depth {
					lvl = "upper"
				} else if len(p) >= leafDigits {
					lvl = "leaf-or-below"
				}
				res.Seen(fmt.Sprintf("store/%s/%s/variant%d/b%d/h%d", want.Kind, lvl, v, a.Cfg.NumBucket, a.Cfg.TreeHeight))
				res.Event("store_prefixes."+want.Kind, 1)
			}
			if vi == 0 {
				first = got
			}
			res.Event("store_histories.variant"+fmt.Sprint(v), 1)
			sut.Destroy()
		}
		if c < 2 {
			res.Sample(map[string]interface{}{"case": id, "keys": len(keys), "prefixes": len(plist), "variants": variants, "buckets": a.Cfg.NumBucket, "height": a.Cfg.TreeHeight})
		}
	}
}
