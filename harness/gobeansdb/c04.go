//go:build verif
// +build verif

package gobeansdb

import (
	"bytes"
	"fmt"
	"hash/fnv"
	"path/filepath"
	"runtime"
	"strconv"
	"strings"
	"sync"
	"sync/atomic"
	"time"

	"github.com/douban/gobeansdb/cmem"
	"github.com/douban/gobeansdb/store"
	"verif/lincheck"
	"verif/model"
	"verif/ref"
	"verif/vfc"
)

type vfC04Args struct {
	Histories  int
	Level      int  // perturbation level of the schedule hooks
	Targeted   bool // run the deterministic park/release orderings
	GC         bool // C05: one GC pass beside the clients
	CheckVHash bool
	NoDumper   bool // C05 race build: the hint dumper loop is left out (see DESIGN.md, race policy)
}

var vfTick int64

func tick() int64 { return atomic.AddInt64(&vfTick, 1) }

// ---- self-describing values ----

func vfTagSeed(tag string) uint64 {
	h := fnv.New64a()
	h.Write([]byte(tag))
	return h.Sum64()
}

func vfMakeValue(key string, client, seq int, class string, size int) (id string, val []byte) {
	if size < len(key)+48 {
		size = len(key) + 48 // room for the self-describing tag
	}
	tag := fmt.Sprintf("%s|%d|%d|%s|%d", key, client, seq, class, size)
	spec := ref.ValueSpec{Class: class, Size: size, Seed: vfTagSeed(tag), Tag: tag}
	return fmt.Sprintf("%d.%d", client, seq), spec.Build()
}

// vfCheckValue identifies the write a value came from and verifies every byte.
func vfCheckValue(key string, val []byte) (id string, ok bool) {
	pv := val
	if len(pv) > 32 {
		pv = pv[:32]
	}
	if len(val) < 3 || val[0] != '<' {
		return fmt.Sprintf("?len=%d:%q", len(val), pv), false
	}
	end := bytes.IndexByte(val, '>')
	if end < 0 {
		return fmt.Sprintf("?len=%d:%q", len(val), pv), false
	}
	tag := string(val[1:end])
	f := strings.Split(tag, "|")
	if len(f) < 5 {
		return "?", false
	}
	n := len(f)
	size, e1 := strconv.Atoi(f[n-1])
	seq, e2 := strconv.Atoi(f[n-3])
	client, e3 := strconv.Atoi(f[n-4])
	class := f[n-2]
	k := strings.Join(f[:n-4], "|")
	if e1 != nil || e2 != nil || e3 != nil {
		return "?", false
	}
	id = fmt.Sprintf("%d.%d", client, seq)
	if k != key {
		return "foreign-key:" + id, false
	}
	_, want := vfMakeValue(key, client, seq, class, size)
	return id, bytes.Equal(want, val)
}

// vfTagSafeKeys: keys whose bytes cannot be confused with the tag syntax.
func vfTagSafeKeys(r *ref.Rand, n int, cfg store.VFConfig) []string {
	var keys []string
	for len(keys) < n {
		for _, k := range vfKeysForServed(r, n, cfg) {
			if !strings.ContainsAny(k, "<>|") && len(keys) < n {
				keys = append(keys, k)
			}
		}
	}
	return keys
}

// ---- the store boundary ----

type vfClient struct {
	hs  *store.HStore
	id  int
	ops []lincheck.Op
	seq int
}

func (c *vfClient) set(key, class string, size int) {
	c.seq++
	id, val := vfMakeValue(key, c.id, c.seq, class, size)
	ki := &store.KeyInfo{StringKey: key, Key: []byte(key)}
	p := &store.Payload{}
	p.TS = uint32(time.Now().Unix() - 864000)
	if !p.CArray.Alloc(len(val)) {
		return
	}
	copy(p.Body, val)
	cmem.DBRL.SetData.AddSizeAndCount(p.CArray.Cap)
	op := lincheck.Op{Client: c.id, Kind: "set", Key: key, ID: id, Inv: tick()}
	err := c.hs.Set(ki, p)
	op.Res = tick()
	if err != nil {
		op.Err = err.Error()
	} else {
		op.Accepted, op.Ver, op.GotID = true, p.Ver, ""
	}
	c.ops = append(c.ops, op)
}

func (c *vfClient) del(key string) {
	ki := &store.KeyInfo{StringKey: key, Key: []byte(key)}
	p := store.GetPayloadForDelete()
	op := lincheck.Op{Client: c.id, Kind: "del", Key: key, Inv: tick()}
	err := c.hs.Set(ki, p)
	op.Res = tick()
	switch {
	case err == nil:
		op.Accepted, op.Ver = true, p.Ver
	case err.Error() == "NOT_FOUND":
	default:
		op.Err = err.Error()
	}
	c.ops = append(c.ops, op)
}

func (c *vfClient) get(key string, memOnly, final bool) lincheck.Op {
	ki := &store.KeyInfo{StringKey: key, Key: []byte(key)}
	kind := "get"
	if memOnly {
		kind = "getmem"
	}
	op := lincheck.Op{Client: c.id, Kind: kind, Key: key, Final: final, Inv: tick()}
	p, _, err := c.hs.Get(ki, memOnly)
	op.Res = tick()
	if err != nil {
		op.Err = err.Error()
	} else if p != nil {
		op.Ver = p.Ver
		if !memOnly {
			if p.Ver > 0 {
				op.GotID, op.ValueOK = vfCheckValue(key, p.Body)
			}
			cmem.DBRL.GetData.SubSizeAndCount(p.CArray.Cap)
			p.CArray.Free()
		}
	}
	c.ops = append(c.ops, op)
	return op
}

// ---- one concurrent history ----

type vfC04Case struct {
	Cfg     store.VFConfig `json:"cfg"`
	Keys    []string       `json:"keys"`
	Clients int            `json:"clients"`
	Ops     int            `json:"ops_per_client"`
	Seed    uint64         `json:"seed"`
	Level   int            `json:"level"`
	Kind    string         `json:"kind"`
	MaxVal  int            `json:"max_val,omitempty"` // 0 = sizes up to 5000
}

func vfC04Config(r *ref.Rand) store.VFConfig {
	cfg := store.VFConfig{NumBucket: r.Pick(1, 16), TreeHeight: r.Range(2, 3), BodyMax: 1 << 20,
		DataFileMax: int64(r.Pick(8, 16, 40, 4000<<12)) * 256, SplitCap: int64(r.Pick(2, 5, 64, 1<<20)), IndexInterval: 512, BodyInC: int64(r.Pick(0, 4096))}
	if cfg.NumBucket == 16 {
		n := r.Range(1, 3)
		for i := 0; i < n; i++ {
			cfg.Served = append(cfg.Served, r.Intn(16))
		}
	}
	return cfg
}

// vfRunClients runs the client goroutines of one history (plus the flusher and
// hint-dumper loop bodies) and returns the merged history.
func vfRunClients(sut *vfSUT, sched *vfc.Sched, c *vfC04Case, r *ref.Rand, extra func(stop chan struct{}, wg *sync.WaitGroup)) []lincheck.Op {
	hs := sut.hs
	store.VFSetMergeChan(true)
	stop := make(chan struct{})
	var bg sync.WaitGroup
	bg.Add(2)
	go func() {
		defer bg.Done()
		sched.SetRole("flusher")
		for i := 0; ; i++ {
			select {
			case <-stop:
				return
			default:
			}
			store.VFFlush(hs, i%3 != 0)
			runtime.Gosched()
			if i%5 == 0 {
				time.Sleep(50 * time.Microsecond)
			}
		}
	}()
	go func() {
		defer bg.Done()
		sched.SetRole("dumper")
		for {
			select {
			case <-stop:
				return
			default:
			}
			if c.Kind != "no-dumper" {
				store.VFDumpHints(hs)
			}
			time.Sleep(100 * time.Microsecond)
		}
	}()
	if extra != nil {
		extra(stop, &bg)
	}
	clients := make([]*vfClient, c.Clients)
	var wg sync.WaitGroup
	for i := range clients {
		clients[i] = &vfClient{hs: hs, id: i}
		cr := r.Split(uint64(1000 + i))
		wg.Add(1)
		go func(cl *vfClient, cr *ref.Rand) {
			defer wg.Done()
			sched.SetRole("client")
			for n := 0; n < c.Ops; n++ {
				key := c.Keys[cr.Intn(len(c.Keys))]
				switch x := cr.Intn(100); {
				case x < 40:
					size := cr.Pick(30, 200, 300, 700, 5000)
					if c.MaxVal > 0 && size > c.MaxVal {
						size = cr.Range(60, c.MaxVal)
					}
					cl.set(key, []string{"random", "text", "periodic"}[cr.Intn(3)], size)
				case x < 52:
					cl.del(key)
				case x < 87:
					cl.get(key, false, false)
				default:
					cl.get(key, true, false)
				}
			}
		}(clients[i], cr)
	}
	wg.Wait()
	close(stop)
	bg.Wait()
	var all []lincheck.Op
	for _, cl := range clients {
		all = append(all, cl.ops...)
	}
	return all
}

func vfRunClientsNoDumper(sut *vfSUT, sched *vfc.Sched, c *vfC04Case, r *ref.Rand) []lincheck.Op {
	c.Kind = "no-dumper"
	return vfRunClients(sut, sched, c, r, nil)
}

func vfJudge(res *vfc.Result, id, prefix string, c interface{}, keys []string, all []lincheck.Op, tolerateReadErrors bool) (violated bool) {
	byKey := map[string][]lincheck.Op{}
	for _, o := range all {
		byKey[o.Key] = append(byKey[o.Key], o)
	}
	overlaps := 0
	for _, k := range keys {
		ops := byKey[k]
		if tolerateReadErrors {
			// a read that returns an *error* while its position is being relocated
			// by GC is the code's documented "omit it" behaviour: counted, not judged
			var kept []lincheck.Op
			for _, o := range ops {
				if o.Err != "" && (o.Kind == "get" || o.Kind == "getmem") && !o.Final {
					res.Event("c05.read_errors_during_gc_tolerated", 1)
					continue
				}
				kept = append(kept, o)
			}
			ops = kept
		}
		viols := lincheck.CheckKey(k, ops)
		pc := lincheck.Porcupine(ops, 60*time.Second)
		for i, a := range ops {
			for _, b := range ops[i+1:] {
				if a.Client != b.Client && a.Inv < b.Res && b.Inv < a.Res {
					overlaps++
				}
			}
		}
		res.Eval(1)
		if len(viols) == 0 && pc == "illegal" || len(viols) > 0 && pc == "ok" {
			hasErr := false
			for _, v := range viols {
				if strings.HasPrefix(v.Sig, "op-error") {
					hasErr = true
				}
			}
			if !hasErr {
				res.Inconc(fmt.Sprintf("checker disagreement on key %q in %s: rules found %d problems, porcupine says %s", k, id, len(viols), pc))
				continue
			}
		}
		if pc == "unknown" {
			res.Inconc("porcupine timed out on key " + k)
		}
		if len(viols) > 0 {
			violated = true
			var lines []string
			for _, o := range ops {
				lines = append(lines, "  "+o.String())
			}
			if len(lines) > 80 {
				lines = lines[len(lines)-80:]
			}
			v := viols[0]
			res.Violate(id, prefix+":"+v.Sig, fmt.Sprintf("%s\n(%d rule violations on this key; porcupine: %s)\n-- history of the key (last %d ops) --\n%s", v.Detail, len(viols), pc, len(lines), strings.Join(lines, "\n")),
				map[string]interface{}{"case": c, "history": ops})
		}
	}
	res.Event("overlapping_same_key_pairs", int64(overlaps))
	return
}

func vfC04History(env *vfc.Env, id string, r *ref.Rand, a *vfC04Args) {
	res := env.Res
	cfg := vfC04Config(r)
	cfg.CheckVHash = false
	c := &vfC04Case{Cfg: cfg, Clients: r.Range(2, 16), Ops: r.Range(10, 40), Seed: r.Uint64(), Level: a.Level, Kind: "random-schedule"}
	if c.Clients*c.Ops > 400 {
		c.Ops = 400 / c.Clients
	}
	c.Keys = vfTagSafeKeys(r, r.Range(2, 8), cfg)
	res.Begin(id, c)
	sut, err := vfOpenSUT(cfg, filepath.Join(env.Work, id), res)
	if err != nil {
		res.Violate(id, "c04:open-error", err.Error(), c)
		return
	}
	sut.quiet = false
	hooks := vfc.InstallHooks()
	mem := newMemReg()
	hooks.SetMem(mem.hook)
	sched := vfc.NewSched(c.Seed, a.Level)
	hooks.SetPoint(sched.Hook)
	before := hooks.Counts()
	all := vfRunClients(sut, sched, c, r, nil)
	hooks.SetPoint(nil)
	hooks.WaitQuiescent(vfWatchdog)
	// final reads
	fin := &vfClient{hs: sut.hs, id: 99}
	for _, k := range c.Keys {
		fin.get(k, false, true)
		fin.get(k, true, true)
	}
	all = append(all, fin.ops...)
	vfJudge(res, id, "c04", c, c.Keys, all, false)
	// accounting at quiescence (same rule as C12, here after concurrent traffic)
	store.VFFlush(sut.hs, true)
	hooks.WaitQuiescent(vfWatchdog)
	if !cmem.DBRL.IsZero() {
		res.Violate(id, "c04:accounting-not-zero", fmt.Sprintf("after the history and a forced flush the buffer counters are not zero: get %+v set %+v flush %+v alloc %+v", cmem.DBRL.GetData, cmem.DBRL.SetData, cmem.DBRL.FlushData, *cmem.DBRL.AllocRL), c)
	}
	if n, _ := mem.liveCount(); n != 0 || mem.unknown != 0 {
		res.Violate(id, "c04:c-blocks", fmt.Sprintf("%d C blocks still live, %d frees of unknown blocks", n, mem.unknown), c)
	}
	hooks.SetMem(nil)
	after := hooks.Counts()
	rot := after["data.bgflush.spawn"] - before["data.bgflush.spawn"]
	bufReads := after["chunk.getbuf.beforeCopy"] - before["chunk.getbuf.beforeCopy"]
	fileReads := after["chunk.get.beforeFileRead"] - before["chunk.get.beforeFileRead"]
	res.Event("ops", int64(len(all)))
	res.Event("rotations_during_traffic", rot)
	res.Event("reads_from_buffer", bufReads)
	res.Event("reads_from_file", fileReads)
	sig, ev := sched.Signature()
	res.Seen(fmt.Sprintf("schedule/%016x", sig))
	res.Event("hook_events", ev)
	res.Event("histories", 1)
	if len(res.Samples) < 2 {
		n := len(all)
		if n > 8 {
			n = 8
		}
		res.Sample(map[string]interface{}{"case": id, "clients": c.Clients, "keys": len(c.Keys), "ops": len(all), "first_ops": all[:n]})
	}
	sut.Destroy()
}

func vfC04(env *vfc.Env) {
	var a vfC04Args
	env.ParseArgs(&a)
	vfQuiet()
	rnd := ref.NewRand(env.Seed)
	for h := 0; h < a.Histories; h++ {
		id := fmt.Sprintf("h%d", h)
		if !env.Want(id) {
			continue
		}
		vfC04History(env, id, rnd.Split(uint64(h)), &a)
	}
	if a.Targeted {
		for i, kind := range vfTargetedKinds {
			id := fmt.Sprintf("t%d-%s", i, kind)
			if !env.Want(id) {
				continue
			}
			vfC04Targeted(env, id, kind, rnd.Split(uint64(9000+i)))
		}
	}
	for k, v := range vfc.InstallHooks().Counts() {
		env.Res.Event("hook."+k, v)
	}
}

var _ = model.GenKeys
