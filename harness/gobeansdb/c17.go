//go:build verif
// +build verif

package gobeansdb

import (
	"encoding/binary"
	"fmt"
	"net/http/httptest"
	"net/url"
	"os"
	"path/filepath"
	"regexp"
	"sort"
	"strconv"
	"strings"
	"sync"
	"sync/atomic"
	"time"

	"github.com/douban/gobeansdb/cmem"
	"github.com/douban/gobeansdb/store"
	"verif/ref"
	"verif/vfc"
)

type vfC17Args struct {
	Stores    int
	Tuples    int
	Schedules int
}

// vfSetTS stores a value with a chosen record timestamp (the age limit of GC is
// decided from the first record of a file).
func vfSetTS(hs *store.HStore, key string, val []byte, ts uint32) error {
	ki := &store.KeyInfo{StringKey: key, Key: []byte(key)}
	p := &store.Payload{}
	p.TS = ts
	p.CArray.Alloc(len(val))
	copy(p.Body, val)
	cmem.DBRL.SetData.AddSizeAndCount(p.CArray.Cap)
	return hs.Set(ki, p)
}

type vfFileInfo struct {
	Size    int64
	FirstTS int64
}

func vfFilesWithTS(home string) map[int]vfFileInfo {
	m := map[int]vfFileInfo{}
	paths, _ := filepath.Glob(filepath.Join(home, "*.data"))
	for _, p := range paths {
		var id int
		if _, err := fmt.Sscanf(filepath.Base(p), "%03d.data", &id); err != nil {
			continue
		}
		b, err := os.ReadFile(p)
		if err != nil {
			continue
		}
		fi := vfFileInfo{Size: int64(len(b))}
		if len(b) >= 24 {
			fi.FirstTS = int64(binary.LittleEndian.Uint32(b[4:8]))
		}
		m[id] = fi
	}
	return m
}

// vfRefRange is the reference resolution of (start, end, noGCDays): start is the
// first non-empty file at or after the requested one (negative: the remembered
// next-GC file), end is clipped to head-1, and the age limit is taken from the
// first record of the file that follows. ok=false: the request must be refused.
func vfRefRange(files map[int]vfFileInfo, head, nextGC, argStart, argEnd, noGCDays int, now int64) (start, end int, ok bool) {
	nonEmpty := func(i int) bool { return files[i].Size > 0 }
	if argStart < 0 {
		start = nextGC
	} else if argStart > head {
		return 0, 0, false
	} else {
		start = argStart
	}
	for ; start < head; start++ {
		if nonEmpty(start) {
			break
		}
	}
	end = argEnd
	if end < 0 || end >= head-1 {
		end = head - 1
	}
	if noGCDays < 0 {
		noGCDays = 0
	}
	for next := end + 1; next >= start+1; next-- {
		if !nonEmpty(next) {
			continue
		}
		if now-files[next].FirstTS > int64(noGCDays)*86400 {
			for end = next - 1; end >= start; end-- {
				if nonEmpty(end) {
					break
				}
			}
			return start, end, end >= start
		}
	}
	return 0, 0, false
}

type vfFSLog struct {
	mu     sync.Mutex
	events []string
	active bool
}

func (l *vfFSLog) hook(phase int, op, path string, off, n int64) {
	if phase != 0 {
		return
	}
	l.mu.Lock()
	if l.active {
		l.events = append(l.events, op+" "+filepath.Base(path))
	}
	l.mu.Unlock()
}

func vfC17Eligibility(env *vfc.Env, id string, r *ref.Rand, a *vfC17Args) {
	res := env.Res
	cfg := store.VFConfig{NumBucket: 1, TreeHeight: 3, DataFileMax: int64(r.Pick(6, 8, 12)) * 256, BodyMax: int64(r.Pick(1024, 1<<20)), SplitCap: 1 << 20, IndexInterval: 4096}
	info := map[string]interface{}{"cfg": cfg}
	res.Begin(id, info)
	sut, err := vfOpenSUT(cfg, filepath.Join(env.Work, id), res)
	if err != nil {
		res.Violate(id, "c17:open-error", err.Error(), info)
		return
	}
	defer sut.Destroy()
	hooks := vfc.InstallHooks()
	now := time.Now().Unix()
	nfiles := r.Range(1, 6)
	keys := vfTagSafeKeys(r, 6, cfg)
	// file ages in days, each at least 6 hours away from any day boundary used below
	ages := make([]int, nfiles+1)
	for i := range ages {
		ages[i] = r.Pick(0, 1, 3, 4, 8, 20)
	}
	sort.Sort(sort.Reverse(sort.IntSlice(ages))) // older files first, as time goes
	seq := 0
	maxVal := vfC05MaxVal(cfg)
	for f := 0; f < nfiles; f++ {
		ts := uint32(now - int64(ages[f])*86400 - 6*3600)
		start, _ := store.VFChunks(sut.hs, 0)
		for {
			head, _ := store.VFChunks(sut.hs, 0)
			if head != start {
				break // rotated into the next file
			}
			seq++
			vfSetTS(sut.hs, keys[r.Intn(len(keys))], (&ref.ValueSpec{Class: "random", Size: r.Range(60, maxVal), Seed: r.Uint64(), Tag: fmt.Sprint(seq)}).Build(), ts)
		}
	}
	headState := r.Pick(0, 1, 2) // 0: unflushed head, 1: flushed head, 2: empty head after restart
	store.VFFlush(sut.hs, true)
	sut.waitBG("c17 build")
	switch headState {
	case 0:
		vfSetTS(sut.hs, keys[0], []byte("<unflushed head record>................................"), uint32(now-3600))
	case 2:
		sut.Restart("")
	}
	// gaps from an earlier pass, sometimes
	if r.Intn(3) == 0 {
		if rs := store.VFLegalRanges(sut.hs, 0); len(rs) > 0 {
			rg := rs[r.Intn(len(rs))]
			store.VFGCDirect(sut.hs, 0, rg[0], rg[0], false)
			sut.waitBG("c17 gaps")
		}
	}
	home := store.VFBucketHome(sut.hs, 0)
	fslog := &vfFSLog{}
	hooks.SetFS(fslog.hook)
	defer hooks.SetFS(nil)
	nextGC := 0
	if b, err := os.ReadFile(filepath.Join(home, "nextgc.txt")); err == nil {
		fmt.Sscanf(string(b), "%d", &nextGC)
	}
	for t := 0; t < a.Tuples; t++ {
		head, _ := store.VFChunks(sut.hs, 0)
		files := vfFilesWithTS(home)
		argS := r.Pick(-1, 0, 1, 2, 3, head-1, head, head+1, 99, r.Intn(head+2))
		argE := r.Pick(-1, 0, 1, 2, 3, head-1, head, head+1, 99, r.Intn(head+2))
		days := r.Pick(-1, 0, 2, 5, 30)
		merge := r.Bool()
		pretend := t < a.Tuples-3 || r.Intn(4) == 0
		if !pretend && r.Intn(10) < 7 {
			// make most real requests eligible ones
			if rs := store.VFLegalRanges(sut.hs, 0); len(rs) > 0 {
				rg := rs[r.Intn(len(rs))]
				argS, argE, days = rg[2], rg[3], r.Pick(0, 0, -1)
			}
		}
		tuple := fmt.Sprintf("start=%d end=%d days=%d merge=%v pretend=%v head=%d files=%v", argS, argE, days, merge, pretend, head, vfFileList(files))
		res.Eval(1)
		wantS, wantE, wantOK := vfRefRange(files, head, nextGC, argS, argE, days, time.Now().Unix())
		before := vfInventory(home)
		enters := hooks.Count("gc.enter")
		exits := hooks.GCExits()
		fslog.mu.Lock()
		fslog.events, fslog.active = nil, true
		fslog.mu.Unlock()
		var b, e int
		var err error
		viaWeb := r.Intn(3) == 0
		if viaWeb {
			// the request as an operator issues it: the admin HTTP handler (defaults -1, pretend unless run=true)
			b, e, err = vfWebGC(sut.hs, r, argS, argE, days, merge, pretend)
			tuple += " via=/gc/ handler"
			res.Event("requests_via_web_handler", 1)
		} else {
			b, e, err = sut.hs.GC(0, argS, argE, days, merge, pretend)
		}
		ran := false
		if err == nil && !pretend {
			if !hooks.WaitGCExit(exits, vfWatchdog) {
				res.Inconc("gc did not finish within the watchdog")
				return
			}
			sut.waitBG("c17 pass")
			ran = true
		}
		fslog.mu.Lock()
		fslog.active = false
		evs := append([]string(nil), fslog.events...)
		fslog.mu.Unlock()
		after := vfInventory(home)
		fail := func(sig, format string, x ...interface{}) {
			res.Violate(id, "c17:"+sig, fmt.Sprintf(format, x...)+"\nrequest: "+tuple, map[string]interface{}{"cfg": cfg, "request": tuple})
		}
		if (err == nil) != wantOK {
			fail("accept-vs-refuse", "HStore.GC returned (%d,%d,err=%v); the reference resolution says accepted=%v [%d,%d]", b, e, err, wantOK, wantS, wantE)
			continue
		}
		if err == nil && (b != wantS || e != wantE) {
			fail("range-resolution", "HStore.GC resolved the range to [%d,%d], the reference says [%d,%d]", b, e, wantS, wantE)
			continue
		}
		var changed []string
		for f, st := range after {
			if before[f] != st {
				changed = append(changed, f)
			}
		}
		for f := range before {
			if _, ok := after[f]; !ok {
				changed = append(changed, f)
			}
		}
		sort.Strings(changed)
		if !ran {
			if len(changed) > 0 || hooks.Count("gc.enter") != enters {
				fail("pretend-or-refused-changed-files", "the request was %s but files changed: %v (gc.enter hits %d)", map[bool]string{true: "pretend", false: "refused"}[pretend && err == nil], changed, hooks.Count("gc.enter")-enters)
			}
			res.Seen(fmt.Sprintf("request/%s/accepted=%v/days=%d", map[bool]string{true: "pretend", false: "real"}[pretend], err == nil, days))
			continue
		}
		// a real pass: which data files may be touched
		earlier := -1
		for _, f := range changed {
			var fid int
			if _, serr := fmt.Sscanf(f, "%03d.data", &fid); serr != nil || len(f) != 8 {
				continue // index, hint, nextgc, collision files
			}
			switch {
			case fid >= head:
				fail("head-file-touched", "the pass over [%d,%d] changed %s, the file currently receiving appends (head %d) or beyond", b, e, f, head)
			case fid > e:
				fail("file-above-range-touched", "the pass over [%d,%d] changed %s", b, e, f)
			case fid < b:
				if _, existed := before[f]; !existed {
					// a fresh destination: a file GC creates in an empty slot of a gap below the range
					// (nothing is rewritten, truncated or removed by that)
					res.Event("fresh_destination_below_range", 1)
					continue
				}
				if earlier >= 0 && earlier != fid {
					fail("two-earlier-files-touched", "the pass over [%d,%d] changed two files below the range: %03d.data and %s", b, e, earlier, f)
				}
				earlier = fid
				old, had := before[f]
				if had {
					data, _ := os.ReadFile(filepath.Join(home, f))
					var oldSize int
					fmt.Sscan(old[0], &oldSize)
					if len(data) < oldSize {
						fail("earlier-file-shrunk", "%s below the range shrank from %d to %d bytes", f, oldSize, len(data))
					}
				}
			}
			// age limit: a touched file needs a later non-empty file whose first record is old enough
			okAge := false
			d := days
			if d < 0 {
				d = 0
			}
			for g, fi := range files {
				if g > fid && fi.Size > 0 && time.Now().Unix()-fi.FirstTS > int64(d)*86400 {
					okAge = true
				}
			}
			if fid >= b && fid <= e && !okAge {
				fail("age-limit-ignored", "%s was collected although no later file starts with a record older than %d days", f, d)
			}
		}
		res.Seen(fmt.Sprintf("pass/files=%d/earlier-dst=%v/days=%d/head=%d/merge=%v", minI(e-b+1, 4), earlier >= 0, days, headState, merge))
		res.Event("real_passes", 1)
		res.Event("fs_mutations_during_passes", int64(len(evs)))
		if b2, err := os.ReadFile(filepath.Join(home, "nextgc.txt")); err == nil {
			fmt.Sscanf(string(b2), "%d", &nextGC)
		}
	}
	res.Event("stores", 1)
	if len(res.Samples) < 2 {
		res.Sample(map[string]interface{}{"case": id, "files": nfiles, "ages_days": ages, "head_state": headState})
	}
}

// vfWebCancel sends "cancel=true" for bucket 0 through the admin web handler.
func vfWebCancel(hs *store.HStore) {
	old := storage
	storage = &Storage{hstore: hs}
	defer func() { storage = old }()
	handleGC(httptest.NewRecorder(), httptest.NewRequest("GET", "/gc/0?cancel=true", nil))
}

// vfWebGC issues the request through the admin web handler (gobeansdb/web.go handleGC)
// and reads the resolved range / the refusal from its reply.
func vfWebGC(hs *store.HStore, r *ref.Rand, argS, argE, days int, merge, pretend bool) (b, e int, err error) {
	old := storage
	storage = &Storage{hstore: hs}
	defer func() { storage = old }()
	q := url.Values{}
	add := func(name string, v int) {
		if v != -1 || r.Bool() { // -1 is the handler's default: sometimes left out
			q.Set(name, strconv.Itoa(v))
		}
	}
	add("start", argS)
	add("end", argE)
	add("nogcdays", days)
	if merge {
		q.Set("merge", "true")
	} else if r.Bool() {
		q.Set("merge", "false")
	}
	if !pretend {
		q.Set("run", "true")
	} else if r.Bool() {
		q.Set("run", []string{"false", "1", "yes"}[r.Intn(3)]) // anything but "true" is a dry run
	}
	req := httptest.NewRequest("GET", "/gc/0?"+q.Encode(), nil)
	w := httptest.NewRecorder()
	handleGC(w, req)
	body := w.Body.String()
	if i := strings.Index(body, "err :"); i >= 0 {
		end := strings.Index(body[i:], "</p>")
		if end < 0 {
			end = len(body) - i
		}
		return -1, -1, fmt.Errorf("%s", strings.TrimSpace(body[i+5:i+end]))
	}
	m := regexp.MustCompile(`start (-?\d+), end (-?\d+), merge (true|false), pretend (true|false)`).FindStringSubmatch(body)
	if m == nil {
		return -1, -1, fmt.Errorf("unparsable reply of the gc handler: %q", body)
	}
	b, _ = strconv.Atoi(m[1])
	e, _ = strconv.Atoi(m[2])
	if (m[4] == "true") != pretend || (m[3] == "true") != merge {
		return b, e, fmt.Errorf("handler ran with merge=%s pretend=%s, requested merge=%v pretend=%v", m[3], m[4], merge, pretend)
	}
	return b, e, nil
}

func vfFileList(files map[int]vfFileInfo) string {
	var ids []int
	for id := range files {
		ids = append(ids, id)
	}
	sort.Ints(ids)
	s := ""
	for _, id := range ids {
		s += fmt.Sprintf("%d:%dB ", id, files[id].Size)
	}
	return s
}

// vfC17Schedule: two GC requests for one bucket.
func vfC17Schedule(env *vfc.Env, id string, r *ref.Rand, kind string) {
	res := env.Res
	cfg := store.VFConfig{NumBucket: 1, TreeHeight: 3, DataFileMax: 8 * 256, BodyMax: 1 << 20, SplitCap: 1 << 20, IndexInterval: 4096}
	info := map[string]interface{}{"cfg": cfg, "kind": kind}
	res.Begin(id, info)
	sut, err := vfOpenSUT(cfg, filepath.Join(env.Work, id), res)
	if err != nil {
		res.Violate(id, "c17:open-error", err.Error(), info)
		return
	}
	defer sut.Destroy()
	hooks := vfc.InstallHooks()
	now := time.Now().Unix()
	keys := vfTagSafeKeys(r, 5, cfg)
	for i := 0; i < 60; i++ {
		vfSetTS(sut.hs, keys[r.Intn(len(keys))], (&ref.ValueSpec{Class: "random", Size: r.Range(60, 500), Seed: r.Uint64(), Tag: fmt.Sprint(i)}).Build(), uint32(now-30*86400))
	}
	store.VFFlush(sut.hs, true)
	sut.waitBG("c17 sched build")
	sut.quiet = false
	// overlap detector
	var inside, maxInside, passes int32
	sched := vfc.NewSched(r.Uint64(), 0)
	hooks.SetPoint(func(name string, x, y int64, s string) {
		switch name {
		case "gc.enter":
			n := atomic.AddInt32(&inside, 1)
			atomic.AddInt32(&passes, 1)
			for {
				m := atomic.LoadInt32(&maxInside)
				if n <= m || atomic.CompareAndSwapInt32(&maxInside, m, n) {
					break
				}
			}
		case "gc.exit":
			atomic.AddInt32(&inside, -1)
		}
		sched.Hook(name, x, y, s)
	})
	defer hooks.SetPoint(nil)
	type result struct{ err error }
	results := make(chan result, 4)
	request := func(role string) {
		sched.SetRole(role)
		_, _, err := sut.hs.GC(0, 0, -1, 0, false, false)
		results <- result{err}
	}
	var accepted, refused int
	collect := func(n int) {
		for i := 0; i < n; i++ {
			if (<-results).err == nil {
				accepted++
			} else {
				refused++
			}
		}
	}
	switch kind {
	case "back-to-back":
		sched.SetRole("main")
		_, _, e1 := sut.hs.GC(0, 0, -1, 0, false, false)
		_, _, e2 := sut.hs.GC(0, 0, -1, 0, false, false)
		for _, e := range []error{e1, e2} {
			if e == nil {
				accepted++
			} else {
				refused++
			}
		}
	case "concurrent":
		go request("r1")
		go request("r2")
		collect(2)
	case "first-parked-after-check":
		t := sched.AddTrap("first", "r1", "hstore.gc.afterCheck", 1)
		go request("r1")
		if !t.WaitParked(vfWatchdog) {
			res.Inconc("first request never reached hstore.gc.afterCheck")
			sched.ReleaseAll()
			return
		}
		go request("r2") // issued while the first one is about to run
		collect(1)
		t.Release()
		collect(1)
	case "first-parked-at-gc-enter":
		t := sched.AddTrap("pass", "bg", "gc.fileBegin", 1)
		go request("r1")
		if !t.WaitParked(vfWatchdog) {
			res.Inconc("the pass never reached its first file")
			sched.ReleaseAll()
			return
		}
		collect(1)
		go request("r2") // issued while a pass is registered and running
		collect(1)
		t.Release()
	case "pass-running-many-requests":
		// while one pass is parked at its first file, several further requests of different
		// shapes arrive one after the other: each one must be refused, none may start a pass,
		// and the bucket must be reported as collecting all the time
		t := sched.AddTrap("pass", "bg", "gc.fileBegin", 1)
		go request("r1")
		if !t.WaitParked(vfWatchdog) {
			res.Inconc("the pass never reached its first file")
			sched.ReleaseAll()
			return
		}
		collect(1)
		sched.SetRole("main")
		k := r.Range(2, 5)
		for i := 0; i < k; i++ {
			var e error
			switch r.Intn(6) {
			case 4, 5:
				// a cancel request (through the admin handler or directly): the pass is still in
				// progress until it reaches its next file boundary - it is parked before it - so
				// the bucket must go on being reported as collecting and refuse further requests
				if r.Bool() {
					vfWebCancel(sut.hs)
				} else {
					sut.hs.CancelGC(0)
				}
				res.Event("cancel_requests_while_pass_parked", 1)
				e = fmt.Errorf("cancel")
				_, _, e2 := sut.hs.GC(0, 0, -1, 0, false, false)
				if e2 == nil {
					accepted++
				} else {
					refused++
				}
			case 0:
				_, _, e = sut.hs.GC(0, 0, -1, 0, false, true) // pretend
			case 1:
				_, _, e = sut.hs.GC(0, 99, 100, 0, true, false) // a range that does not exist
			case 2:
				_, _, e = sut.hs.GC(0, 0, 0, 0, r.Bool(), false)
			default:
				_, _, e = sut.hs.GC(0, 0, -1, 0, false, false)
			}
			if e == nil {
				accepted++
			} else {
				refused++
			}
			if !sut.hs.IsGCRunning() {
				res.Violate(id, "c17:running-pass-not-reported:"+kind, fmt.Sprintf("after request %d of %d issued while a pass is parked at its first file, the store no longer reports a running GC", i+2, k+1), info)
				break
			}
		}
		t.Release()
	case "concurrent-many":
		k := r.Range(3, 6)
		for i := 0; i < k; i++ {
			go request(fmt.Sprintf("r%d", i+1))
		}
		collect(k)
	}
	sched.ReleaseAll()
	// wait until every spawned pass is over
	deadline := time.Now().Add(vfWatchdog)
	for (atomic.LoadInt32(&inside) > 0 || hooks.GCRunning()) && time.Now().Before(deadline) {
		time.Sleep(time.Millisecond)
	}
	time.Sleep(5 * time.Millisecond)
	hooks.WaitQuiescent(vfWatchdog)
	res.Eval(1)
	if m := atomic.LoadInt32(&maxInside); m > 1 {
		res.Violate(id, "c17:two-passes-at-once:"+kind, fmt.Sprintf("%d GC passes were inside gc.enter/gc.exit for the same bucket at the same time (%d requests accepted, %d refused, %d passes started)", m, accepted, refused, atomic.LoadInt32(&passes)), info)
	} else if accepted > 1 && (strings.HasPrefix(kind, "first-parked") || kind == "pass-running-many-requests") {
		// (in the unparked kinds a later request may legitimately be accepted after the first pass has finished;
		// there only the overlap detector decides)
		res.Violate(id, "c17:second-request-accepted:"+kind, fmt.Sprintf("a further GC request for the bucket was accepted while one was registered or about to run (%d accepted, %d refused, %d passes)", accepted, refused, atomic.LoadInt32(&passes)), info)
	}
	res.Seen(fmt.Sprintf("schedule/%s/accepted=%d/refused=%d", kind, accepted, refused))
	res.Event("schedules."+kind, 1)
}

func vfC17(env *vfc.Env) {
	var a vfC17Args
	env.ParseArgs(&a)
	vfQuiet()
	rnd := ref.NewRand(env.Seed)
	for i := 0; i < a.Stores; i++ {
		id := fmt.Sprintf("e%d", i)
		if env.Want(id) {
			vfC17Eligibility(env, id, rnd.Split(uint64(i)), &a)
		}
	}
	kinds := []string{"back-to-back", "concurrent", "first-parked-after-check", "first-parked-at-gc-enter", "pass-running-many-requests", "concurrent-many"}
	for i := 0; i < a.Schedules; i++ {
		kind := kinds[i%len(kinds)]
		id := fmt.Sprintf("s%d-%s", i, kind)
		if env.Want(id) {
			vfC17Schedule(env, id, rnd.Split(uint64(5000+i)), kind)
		}
	}
}
