//go:build verif
// +build verif

package gobeansdb

import "verif/vfc"

func VFRun(env *vfc.Env) {
	switch env.Mode {
	default:
		env.Res.Inconc("unknown mode " + env.Mode)
	}
}
