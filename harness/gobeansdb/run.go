//go:build verif
// +build verif

package gobeansdb

import "verif/vfc"

func VFRun(env *vfc.Env) {
	switch env.Mode {
	case "db.c01":
		vfHistories(env, "c01", nil)
	case "db.c08":
		vfC08(env)
	case "db.c15":
		vfC15(env)
	case "db.c10":
		vfC10(env)
	case "db.proto":
		vfProto(env)
	case "db.c17":
		vfC17(env)
	case "db.c07":
		vfC07(env)
	case "db.c06kill":
		vfC06Kill(env)
	case "db.c06victim":
		vfC06Victim(env)
	case "db.c06":
		vfC06(env)
	case "db.crashb":
		vfCrashB(env)
	case "db.c05":
		vfC05(env)
	case "db.c04":
		vfC04(env)
	case "db.c04p":
		vfC04P(env)
	case "db.c13":
		vfHistories(env, "c13", nil)
	case "db.gc":
		vfHistories(env, "c03", nil)
	case "db.c02sched":
		vfC02Sched(env)
	case "db.c02serve":
		vfC02Serve(env)
	case "db.bench":
		vfBench(env)
	case "db.c02":
		vfHistories(env, "c02", nil)
	default:
		env.Res.Inconc("unknown mode " + env.Mode)
	}
}
