//go:build verif
// +build verif

package gobeansdb

import "verif/vfc"

func VFRun(env *vfc.Env) {
	switch env.Mode {
	case "db.c01":
		vfHistories(env, "c01", nil)
	default:
		env.Res.Inconc("unknown mode " + env.Mode)
	}
}
