//go:build verif
// +build verif

package gobeansdb

import (
	"crypto/sha1"
	"fmt"
	"os"
	"path/filepath"
	"strconv"
	"strings"
	"time"

	"github.com/douban/gobeansdb/cmem"
	"github.com/douban/gobeansdb/loghub"
	mc "github.com/douban/gobeansdb/memcache"
	"github.com/douban/gobeansdb/store"
	"verif/model"
	"verif/ref"
	"verif/vfc"
)

const vfWatchdog = 60 * time.Second

// vfSUT drives the real store through the real StorageClient.
type vfSUT struct {
	cfg   store.VFConfig
	base  string // every store instance gets its own fresh directory under base
	gen   int
	home  string
	hs    *store.HStore
	sc    *StorageClient
	hooks *vfc.Hooks
	res   *vfc.Result
	quiet bool // wait for the store's background goroutines before maintenance
	// LastGC describes the last pass (for the C03/C18 monitors)
	LastGC struct {
		Bucket, Begin, End int
		Merge              bool
		State              store.GCState
		Direct             bool
		Ran                bool
		PreFiles           map[int]vfFileState // data files of the bucket before the pass
		PreTree            map[string]bool     // key -> had a tree entry before the pass
	}
	keysFn func() []string
}

type vfFileState struct {
	Size int64
	Sum  [20]byte
}

// dataFiles inventories the data files of one bucket directory.
func vfDataFiles(home string) map[int]vfFileState {
	m := map[int]vfFileState{}
	paths, _ := filepath.Glob(filepath.Join(home, "*.data"))
	for _, p := range paths {
		id, err := strconv.Atoi(strings.TrimSuffix(filepath.Base(p), ".data"))
		if err != nil {
			continue
		}
		b, err := os.ReadFile(p)
		if err != nil {
			continue
		}
		m[id] = vfFileState{int64(len(b)), sha1.Sum(b)}
	}
	return m
}

func vfQuiet() {
	if os.Getenv("VERIF_STORE_LOG") != "" { // triage aid: keep the store's own log on stderr
		return
	}
	loghub.ErrorLogger.SetLevel(loghub.FATAL)
}

func vfOpenSUT(cfg store.VFConfig, base string, res *vfc.Result) (*vfSUT, error) {
	s := &vfSUT{cfg: cfg, base: base, res: res, quiet: true}
	s.hooks = vfc.InstallHooks()
	store.VFSetSecsBeforeDump(-1)
	os.MkdirAll(base, 0755)
	s.home = filepath.Join(base, "g0")
	if err := s.open(); err != nil {
		return nil, err
	}
	return s, nil
}

func (s *vfSUT) open() error {
	store.VFApplyConfig(s.cfg, s.home)
	hs, err := store.NewHStore()
	if err != nil {
		return err
	}
	s.hs = hs
	s.sc = &StorageClient{hs}
	if s.quiet {
		s.waitBG("after open")
	}
	return nil
}

func (s *vfSUT) waitBG(why string) {
	if !s.hooks.WaitQuiescent(vfWatchdog) {
		s.res.Inconc("background goroutines of the store did not finish within the watchdog (" + why + ")")
	}
}

func (s *vfSUT) Close() {
	if s.hs != nil {
		s.waitBG("before close")
		s.hs.Close()
		s.hs = nil
	}
}

// Destroy closes the store and removes every directory of the case.
func (s *vfSUT) Destroy() {
	s.Close()
	s.waitBG("destroy")
	os.RemoveAll(s.base)
}

func (s *vfSUT) Set(key string, val []byte, flag uint32, rev int32) (bool, error) {
	item := &mc.Item{Flag: int(flag), Exptime: int(rev), ReceiveTime: time.Now().Add(-240 * time.Hour)} // old timestamps: files become GC-eligible at once (no_gc_days reads the wall clock)
	if !item.Alloc(len(val)) {
		return false, fmt.Errorf("alloc failed")
	}
	copy(item.Body, val)
	cmem.DBRL.SetData.AddSizeAndCount(item.CArray.Cap) // as the protocol parser does
	return s.sc.Set(key, item, false)
}

func (s *vfSUT) Delete(key string) (bool, error) { return s.sc.Delete(key) }

func (s *vfSUT) Incr(key string, d int) (int, error) {
	cmem.DBRL.SetData.AddCount(1) // as the protocol parser does
	return s.sc.Incr(key, d)
}

func vfTakeItem(key string, it *mc.Item) *model.Item {
	if it == nil {
		return nil
	}
	out := &model.Item{Val: append([]byte(nil), it.Body...), Flag: uint32(it.Flag)}
	// what Response.CleanBuffer does
	if key[0] != '@' && key[0] != '?' {
		cmem.DBRL.GetData.SubSizeAndCount(it.CArray.Cap)
	}
	it.CArray.Free()
	return out
}

func (s *vfSUT) Get(key string) (*model.Item, error) {
	it, err := s.sc.Get(key)
	if err != nil {
		return nil, err
	}
	return vfTakeItem(key, it), nil
}

func (s *vfSUT) GetMulti(keys []string) (map[string]*model.Item, error) {
	m, err := s.sc.GetMulti(keys)
	if err != nil {
		return nil, err
	}
	out := map[string]*model.Item{}
	for k, it := range m {
		out[k] = vfTakeItem(k, it)
	}
	return out, nil
}

func (s *vfSUT) Meta(key string) (*model.Meta, error) {
	it, err := s.sc.Get("??" + key)
	if err != nil || it == nil {
		return nil, err
	}
	f := strings.Fields(string(it.Body))
	if len(f) != 7 {
		return nil, fmt.Errorf("malformed meta reply %q", it.Body)
	}
	var n [7]int64
	for i := range f {
		v, e := strconv.ParseInt(f[i], 10, 64)
		if e != nil {
			return nil, fmt.Errorf("malformed meta reply %q", it.Body)
		}
		n[i] = v
	}
	return &model.Meta{Ver: int32(n[0]), Vhash: uint16(n[1]), Flag: uint32(n[2]), Len: int(n[3]), TS: uint32(n[4]), Chunk: int(n[5]), Offset: uint32(n[6])}, nil
}

func (s *vfSUT) Flush(force bool) error {
	store.VFFlush(s.hs, force)
	return nil
}

func (s *vfSUT) DumpHints() error {
	if s.quiet {
		s.waitBG("before hint dump")
	}
	store.VFDumpHints(s.hs)
	if s.quiet {
		s.waitBG("after hint dump")
	}
	return nil
}

// vfSelectIndexFiles applies a removal rule to the index files of one directory.
func vfSelectIndexFiles(files []string, rm string) (sel []string) {
	switch {
	case rm == "":
		return nil
	case rm == "all":
		return files
	case rm == "hash" || rm == "s" || rm == "m":
		for _, f := range files {
			if strings.HasSuffix(f, ".idx."+rm) {
				sel = append(sel, f)
			}
		}
	case strings.HasPrefix(rm, "rand:"):
		seed, _ := strconv.ParseUint(rm[5:], 10, 64)
		r := ref.NewRand(seed)
		for _, f := range files {
			if r.Bool() {
				sel = append(sel, f)
			}
		}
	case strings.HasPrefix(rm, "mask:"):
		mask, _ := strconv.ParseUint(rm[5:], 10, 64)
		for i, f := range files {
			if mask&(1<<uint(i)) != 0 {
				sel = append(sel, f)
			}
		}
	case strings.HasPrefix(rm, "list:"):
		want := map[string]bool{}
		for _, n := range strings.Split(rm[5:], ",") {
			want[n] = true
		}
		for _, f := range files {
			if want[f] {
				sel = append(sel, f)
			}
		}
	}
	return
}

func (s *vfSUT) bucketDirs(home string) (dirs []string) {
	for i := 0; i < s.cfg.NumBucket; i++ {
		d := filepath.Join(home, store.GetBucketDir(s.cfg.NumBucket, i))
		if st, err := os.Stat(d); err == nil && st.IsDir() {
			dirs = append(dirs, d)
		}
	}
	return
}

// indexFilesRel lists every derived index file below home (sorted relative paths).
func (s *vfSUT) indexFilesRel(home string) (files []string) {
	for _, d := range s.bucketDirs(home) {
		for _, f := range store.VFIndexFiles(d) {
			rel, _ := filepath.Rel(home, filepath.Join(d, f))
			files = append(files, rel)
		}
	}
	return
}

// reopenCopy copies the closed directory, deletes the index files selected by
// rm from the copy and opens a fresh instance on it.
func (s *vfSUT) reopenCopy(closed, rm string) (removed []string, err error) {
	s.gen++
	newHome := filepath.Join(s.base, fmt.Sprintf("g%d", s.gen))
	if err = store.VFCopyDir(closed, newHome); err != nil {
		return nil, err
	}
	s.home = newHome
	removed = vfSelectIndexFiles(s.indexFilesRel(newHome), rm)
	for _, f := range removed {
		os.Remove(filepath.Join(newHome, f))
	}
	return removed, s.open()
}

// Restart = clean shutdown, then a fresh instance on a copy of the directory
// taken when Close returned (what a new process would find), minus the index
// files selected by rm.
func (s *vfSUT) Restart(rm string) (removed []string, err error) {
	s.waitBG("before close")
	s.hs.Close()
	s.hs = nil
	closed := s.home
	removed, err = s.reopenCopy(closed, rm)
	os.RemoveAll(closed)
	return
}

// RestartVariants reopens the same closed directory once per index-file subset.
func (s *vfSUT) RestartVariants(rm, mode string, probe func(label string)) (removed []string, n int, err error) {
	s.waitBG("before close")
	s.hs.Close()
	s.hs = nil
	closed := s.home
	files := s.indexFilesRel(closed)
	k := len(files)
	var rules []string
	if mode == "exhaustive" && k <= 5 {
		for m := 0; m < 1<<uint(k); m++ {
			rules = append(rules, fmt.Sprintf("mask:%d", m))
		}
		s.res.Event("restart.subsets_exhaustive", 1)
	} else if mode == "few" {
		r := ref.NewRand(uint64(s.gen)*104729 + uint64(k))
		rules = []string{"all", []string{"hash", "s", "m"}[r.Intn(3)], fmt.Sprintf("rand:%d", r.Uint64()%1000000)}
		if k > 0 {
			rules = append(rules, fmt.Sprintf("mask:%d", 1<<uint(r.Intn(k))))
		}
		s.res.Event("restart.subsets_few", 1)
	} else {
		rules = []string{"", "all", "hash", "s", "m"}
		for i := 0; i < k && i < 10; i++ {
			rules = append(rules, fmt.Sprintf("mask:%d", 1<<uint(i)))
		}
		nr := 3
		if mode == "exhaustive" {
			nr = 16
		}
		r := ref.NewRand(uint64(s.gen)*7919 + uint64(k))
		for i := 0; i < nr; i++ {
			rules = append(rules, fmt.Sprintf("rand:%d", r.Uint64()%1000000))
		}
		s.res.Event("restart.subsets_sampled", 1)
	}
	for _, rule := range rules {
		rem, e := s.reopenCopy(closed, rule)
		if e != nil {
			os.RemoveAll(closed)
			return rem, n, fmt.Errorf("variant %s (removed %v): %v", rule, rem, e)
		}
		n++
		s.res.Seen(fmt.Sprintf("restart-files/%s", vfFilesPattern(files, rem)))
		probe(fmt.Sprintf("%s removed=%v", rule, rem))
		s.waitBG("variant close")
		s.hs.Close()
		s.hs = nil
		os.RemoveAll(s.home)
	}
	removed, err = s.reopenCopy(closed, rm)
	os.RemoveAll(closed)
	return
}

// vfFilesPattern abstracts which kinds of index files were present/removed.
func vfFilesPattern(all, removed []string) string {
	rm := map[string]bool{}
	for _, f := range removed {
		rm[f] = true
	}
	cnt := map[string]int{}
	for _, f := range all {
		kind := f[strings.LastIndex(f, ".")+1:]
		if rm[f] {
			cnt[kind+"-"]++
		} else {
			cnt[kind+"+"]++
		}
	}
	cl := func(n int) string {
		if n > 2 {
			return "many"
		}
		return strconv.Itoa(n)
	}
	return fmt.Sprintf("hash+%s,-%s/s+%s,-%s/m+%s,-%s", cl(cnt["hash+"]), cl(cnt["hash-"]), cl(cnt["s+"]), cl(cnt["s-"]), cl(cnt["m+"]), cl(cnt["m-"]))
}

type vfRange struct{ bucket, b, e, argB, argE int }

func (s *vfSUT) legalRanges() (rs []vfRange) {
	for _, id := range store.VFReadyBuckets(s.hs) {
		for _, r := range store.VFLegalRanges(s.hs, id) {
			rs = append(rs, vfRange{id, r[0], r[1], r[2], r[3]})
		}
	}
	return
}

func (s *vfSUT) GC(sel uint64, merge bool, pref string) (info string, ran bool, err error) {
	s.waitBG("before gc")
	s.LastGC.Ran = false
	rs := s.legalRanges()
	if pref != "" {
		// prefer ranges of the requested kind when there are any
		var sel []vfRange
		for _, x := range rs {
			first := true
			_, chunks := store.VFChunks(s.hs, x.bucket)
			for _, c := range chunks {
				if c.ID < x.b && c.Size > 0 {
					first = false
				}
			}
			if (pref == "low") == first {
				sel = append(sel, x)
			}
		}
		if len(sel) > 0 {
			rs = sel
		}
	}
	if len(rs) == 0 {
		return "no legal range", false, nil
	}
	r := rs[int(sel%uint64(len(rs)))]
	direct := (sel/uint64(len(rs)))%2 == 0
	before := store.VFDescribeChunks(s.hs, r.bucket)
	s.LastGC.Bucket, s.LastGC.Begin, s.LastGC.End, s.LastGC.Merge, s.LastGC.Direct = r.bucket, r.b, r.e, merge, direct
	s.LastGC.Ran = true
	s.LastGC.PreFiles = vfDataFiles(store.VFBucketHome(s.hs, r.bucket))
	s.LastGC.PreTree = map[string]bool{}
	if s.keysFn != nil {
		for _, k := range s.keysFn() {
			_, _, _, _, found := store.VFTreeEntry(s.hs, k)
			s.LastGC.PreTree[k] = found
		}
	}
	if direct {
		s.LastGC.State = store.VFGCDirect(s.hs, r.bucket, r.b, r.e, merge)
	} else {
		n := s.hooks.GCExits()
		hl := store.VFGCHistoryLen(s.hs, r.bucket)
		b, e, gerr := s.hs.GC(r.bucket, r.argB, r.argE, 0, merge, false)
		if gerr != nil {
			return fmt.Sprintf("HStore.GC(%d,%d,%d) refused a range its own check accepted", r.bucket, r.argB, r.argE), true, gerr
		}
		if b != r.b || e != r.e {
			return "", true, fmt.Errorf("HStore.GC resolved [%d,%d] to [%d,%d]", r.b, r.e, b, e)
		}
		if !s.hooks.WaitGCExit(n, vfWatchdog) {
			s.res.Inconc("gc pass did not finish within the watchdog")
			return "", true, nil
		}
		if store.VFGCHistoryLen(s.hs, r.bucket) > hl {
			s.LastGC.State = store.VFGCState(s.hs, r.bucket, hl)
		}
	}
	s.waitBG("after gc")
	st := s.LastGC.State
	info = fmt.Sprintf("bucket %d range [%d,%d] merge=%v direct=%v dst=%d released=%d/%dB before: %s after: %s", r.bucket, r.b, r.e, merge, direct, st.Dst, st.NumReleased, st.SizeReleased, before, store.VFDescribeChunks(s.hs, r.bucket))
	if st.Err != nil {
		return info, true, st.Err
	}
	return info, true, nil
}

func (s *vfSUT) Info(key string) (string, bool) { return store.VFRecordInfo(s.hs, key) }

// Damage corrupts one record that is no key's current record: a superseded value or an
// outdated tombstone in a flushed data file below the head. One byte of its value (or, for
// an empty value, of its key) is inverted in place. The record is chosen by sel among all
// candidates the independent scanner finds.
func (s *vfSUT) Damage(sel uint64) (string, bool) {
	s.waitBG("before damage")
	store.VFFlush(s.hs, true)
	s.waitBG("before damage (flushed)")
	type cand struct {
		path  string
		chunk int
		off   uint32
		rec   *ref.Record
	}
	var cands []cand
	for _, b := range store.VFReadyBuckets(s.hs) {
		home := store.VFBucketHome(s.hs, b)
		head, _ := store.VFChunks(s.hs, b)
		paths, _ := filepath.Glob(filepath.Join(home, "*.data"))
		for _, p := range paths {
			id, err := strconv.Atoi(strings.TrimSuffix(filepath.Base(p), ".data"))
			if err != nil || id >= head {
				continue
			}
			data, err := os.ReadFile(p)
			if err != nil {
				continue
			}
			recs, _ := ref.ScanFile(data, uint32(s.cfg.BodyMax))
			for _, sr := range recs {
				_, _, chunk, offset, found := store.VFTreeEntry(s.hs, string(sr.Rec.Key))
				if found && chunk == id && offset == sr.Off {
					continue // the key's current record
				}
				if !found && sr.Rec.Ver < 0 {
					continue // a tombstone whose key has no tree entry may be the only trace of the delete
				}
				if !found {
					continue // without a tree entry the store cannot tell which record of the key is current
				}
				cands = append(cands, cand{p, id, sr.Off, sr.Rec})
			}
		}
	}
	if len(cands) == 0 {
		return "no superseded record in a flushed file below the head", false
	}
	c := cands[int(sel%uint64(len(cands)))]
	at := int64(c.off) + 24 + int64(len(c.rec.Key))
	n := len(c.rec.Value)
	if n == 0 {
		at, n = int64(c.off)+24, len(c.rec.Key)
	}
	at += int64((sel / 7) % uint64(n))
	f, err := os.OpenFile(c.path, os.O_RDWR, 0)
	if err != nil {
		return err.Error(), false
	}
	defer f.Close()
	var one [1]byte
	if _, err := f.ReadAt(one[:], at); err != nil {
		return err.Error(), false
	}
	one[0] ^= 0xff
	if _, err := f.WriteAt(one[:], at); err != nil {
		return err.Error(), false
	}
	return fmt.Sprintf("%s offset %d (key %q version %d, %d value bytes): byte %d inverted", filepath.Base(c.path), c.off, c.rec.Key, c.rec.Ver, len(c.rec.Value), at), true
}
