//go:build verif
// +build verif

package gobeansdb

import (
	"bufio"
	"fmt"
	"io"
	"net"
	"os"
	"path/filepath"
	"runtime"
	"strings"
	"sync"
	"sync/atomic"
	"time"

	mc "github.com/douban/gobeansdb/memcache"
	"github.com/douban/gobeansdb/store"
	"verif/ref"
	"verif/vfc"
)

// ---------------------------------------------------------------------------
// C02 through the server's own graceful shutdown. The sequence of
// gobeansdb.Main after a termination signal is reproduced with the real parts:
// memcache.Server on a loopback TCP socket (accept loop, per-connection
// goroutines, connection table), Server.Shutdown() as the signal handler calls
// it, Server.Serve() returning, then HStore.Close(). "The process exits" = the
// directory is copied at the instant Close returns. Clients keep writing over
// TCP all the time, some of them with pauses (idle connections at the moment of
// the signal). Oracle: every set whose STORED reply the client had completely
// received before Close returned must be served by a store reopened on the copy
// (each key has one writer and increasing sequence numbers: the value served
// must be the last one acknowledged before Close returned, or a later one).
// ---------------------------------------------------------------------------

type vfC02ServeArgs struct {
	Cases int
}

type vfServeCase struct {
	Cfg       store.VFConfig `json:"cfg"`
	Clients   int            `json:"clients"`
	ShutAfter int            `json:"shutdown_after_acks"`
	PausePct  int            `json:"pause_pct"`
	ResumeAt  string         `json:"sleepers_resume_at"` // serve-returned | close-fs-N (the N-th file-system step of Close)
	Sleepers  int            `json:"sleepers"`           // connections that stay idle from the signal until Serve has returned (longer than its 2 s grace period), then write again
	Seed      uint64         `json:"seed"`
}

type vfServeClient struct {
	id   int
	key  string
	mu   sync.Mutex
	acks []int64 // acks[i] = tick taken (under mu) after the STORED reply of write #i+1 was read completely
	sent int64
	errs string
}

// ackedBefore returns the last write acknowledged before tick t, and how many were acknowledged in all.
func (cl *vfServeClient) ackedBefore(t int64) (before, all int64) {
	cl.mu.Lock()
	defer cl.mu.Unlock()
	for i, at := range cl.acks {
		if at < t {
			before = int64(i + 1)
		}
	}
	return before, int64(len(cl.acks))
}

func vfFreePort() (int, error) {
	l, err := net.Listen("tcp", "127.0.0.1:0")
	if err != nil {
		return 0, err
	}
	p := l.Addr().(*net.TCPAddr).Port
	l.Close()
	return p, nil
}

func vfC02Serve(env *vfc.Env) {
	var a vfC02ServeArgs
	env.ParseArgs(&a)
	vfQuiet()
	res := env.Res
	rnd := ref.NewRand(env.Seed)
	for h := 0; h < a.Cases; h++ {
		id := fmt.Sprintf("sd%d", h)
		if !env.Want(id) {
			continue
		}
		r := rnd.Split(uint64(h))
		cfg := store.VFConfig{NumBucket: 1, TreeHeight: 3, DataFileMax: int64(r.Pick(16, 64, 4000<<12)) * 256, SplitCap: int64(r.Pick(5, 64, 1<<20)), IndexInterval: 512, BodyMax: 1 << 20, BodyInC: int64(r.Pick(0, 4096))}
		c := &vfServeCase{Cfg: cfg, Clients: r.Range(2, 6), ShutAfter: r.Range(5, 200), PausePct: r.Pick(0, 10, 40), Seed: r.Uint64()}
		c.Sleepers = r.Pick(0, 1, 1, 2)
		c.ResumeAt = []string{"serve-returned", "close-fs-1", "close-fs-2", "close-fs-3"}[r.Intn(4)]
		res.Begin(id, c)
		vfServeOne(env, id, c, r)
	}
}

func vfServeOne(env *vfc.Env, id string, c *vfServeCase, r *ref.Rand) {
	res := env.Res
	sut, err := vfOpenSUT(c.Cfg, filepath.Join(env.Work, id), res)
	if err != nil {
		res.Violate(id, "c02:open-error", err.Error(), c)
		return
	}
	sut.quiet = false
	defer sut.Destroy()
	hooks := vfc.InstallHooks()
	var srv *mc.Server
	addr := ""
	for try := 0; try < 20; try++ {
		port, err := vfFreePort()
		if err != nil {
			res.Inconc("no loopback TCP port: " + err.Error())
			return
		}
		addr = fmt.Sprintf("127.0.0.1:%d", port)
		srv = mc.NewServer(&Storage{hstore: sut.hs})
		if err = srv.Listen(addr); err == nil {
			break
		}
		srv = nil
	}
	if srv == nil {
		res.Inconc("cannot listen on a loopback TCP port")
		return
	}
	serveDone := make(chan struct{})
	go func() {
		srv.Serve()
		close(serveDone)
	}()
	// the periodic flusher of the real server, as a loop that can be stopped
	stopFlush := make(chan struct{})
	var bg sync.WaitGroup
	bg.Add(1)
	go func() {
		defer bg.Done()
		for i := 0; ; i++ {
			select {
			case <-stopFlush:
				return
			default:
			}
			store.VFFlush(sut.hs, i%4 == 0)
			time.Sleep(300 * time.Microsecond)
		}
	}()
	var totalAcks int64
	var signalled, idle, dialled int32
	resume := make(chan struct{})         // closed when the sleepers may write again
	sleeperAck := make(chan struct{}, 16) // a sleeper got a reply (or lost its connection) after resuming
	var resumeOnce sync.Once
	stopClients := make(chan struct{})
	clients := make([]*vfServeClient, c.Clients)
	var wg sync.WaitGroup
	for i := range clients {
		cl := &vfServeClient{id: i, key: fmt.Sprintf("serve-%s-%d", id, i)}
		clients[i] = cl
		cr := r.Split(uint64(100 + i))
		wg.Add(1)
		go func() {
			defer wg.Done()
			conn, err := net.Dial("tcp", addr)
			atomic.AddInt32(&dialled, 1)
			if err != nil {
				if atomic.LoadInt32(&signalled) == 0 {
					cl.errs = "dial: " + err.Error()
				}
				return
			}
			defer conn.Close()
			rd := bufio.NewReader(conn)
			sleepAt := int64(cr.Range(2, 12)) // a sleeper goes idle after a few writes and stays idle across the signal
			for seq := int64(1); ; seq++ {
				select {
				case <-stopClients:
					return
				default:
				}
				if cl.id < c.Sleepers && seq == sleepAt {
					atomic.AddInt32(&idle, 1)
					// a pooled connection that happens to be idle while the server shuts down
					select {
					case <-resume:
						res.Event("serve.sleepers_resumed", 1)
						defer func() { sleeperAck <- struct{}{} }()
					case <-stopClients:
						return
					}
				}
				if cr.Intn(100) < c.PausePct { // an idle connection for a while
					time.Sleep(time.Duration(cr.Range(1, 30)) * time.Millisecond)
				}
				val := fmt.Sprintf("%s|%d|%s", cl.key, seq, strings.Repeat("v", cr.Pick(10, 200, 300, 5000)))
				atomic.StoreInt64(&cl.sent, seq)
				if _, err := fmt.Fprintf(conn, "set %s 0 0 %d\r\n%s\r\n", cl.key, len(val), val); err != nil {
					vfServeTrace("client %d seq %d: write error %v", cl.id, seq, err)
					return // the server closed the connection
				}
				line, err := rd.ReadString('\n')
				vfServeTrace("client %d seq %d: reply %q err %v signalled=%d", cl.id, seq, line, err, atomic.LoadInt32(&signalled))
				if err != nil {
					if err != io.EOF && !strings.Contains(err.Error(), "reset") && !strings.Contains(err.Error(), "closed") {
						cl.errs = "read: " + err.Error()
					}
					return
				}
				if line != "STORED\r\n" {
					cl.errs = fmt.Sprintf("set answered %q", line)
					return
				}
				cl.mu.Lock()
				cl.acks = append(cl.acks, tick())
				cl.mu.Unlock()
				atomic.AddInt64(&totalAcks, 1)
				if cl.id < c.Sleepers {
					select {
					case <-resume:
						select {
						case sleeperAck <- struct{}{}:
						default:
						}
					default:
					}
				}
			}
		}()
	}
	// the termination signal arrives after a generated number of acknowledged writes
	deadline := time.Now().Add(vfWatchdog)
	// (the signal comes when every client has connected: a connection refused by a server that is already shutting down proves nothing)
	for (atomic.LoadInt32(&dialled) < int32(c.Clients) || atomic.LoadInt64(&totalAcks) < int64(c.ShutAfter) || atomic.LoadInt32(&idle) < int32(minI(c.Sleepers, c.Clients))) && time.Now().Before(deadline) {
		runtime.Gosched()
		time.Sleep(50 * time.Microsecond)
	}
	atomic.StoreInt32(&signalled, 1)
	srv.Shutdown()
	select {
	case <-serveDone:
		if c.ResumeAt == "serve-returned" {
			resumeOnce.Do(func() { close(resume) })
		}
	case <-time.After(vfWatchdog):
		res.Inconc("Server.Serve did not return after Shutdown (" + id + ")")
		return
	}
	close(stopFlush) // Main's flusher goroutine simply dies with the process; here it must not outlive the store
	bg.Wait()
	if c.ResumeAt != "serve-returned" {
		// the idle connection sends its next write while Close is at one of its file-system steps
		// (a file-system call may take any amount of time; the wait below is bounded and is no verdict)
		var n int32
		want := int32(map[string]int{"close-fs-1": 1, "close-fs-2": 2, "close-fs-3": 3}[c.ResumeAt])
		hooks.SetFS(func(phase int, op, path string, off, cnt int64) {
			if phase == 0 && atomic.AddInt32(&n, 1) == want {
				res.Event("serve.resumed_at."+op, 1)
				resumeOnce.Do(func() { close(resume) })
				if c.Sleepers > 0 {
					select {
					case <-sleeperAck:
					case <-time.After(300 * time.Millisecond):
					}
				}
			}
		})
	}
	sut.hs.Close()
	hooks.SetFS(nil)
	resumeOnce.Do(func() { close(resume) })
	closedTick := tick()
	// the process exits: what is on disk now is what the next start finds
	ackedBefore := make([]int64, len(clients))
	for i, cl := range clients {
		ackedBefore[i], _ = cl.ackedBefore(closedTick)
	}
	snap := filepath.Join(env.Work, id+"-exit")
	if err := store.VFCopyDir(sut.home, snap); err != nil {
		res.Inconc("copy of the directory at exit: " + err.Error())
		return
	}
	close(stopClients)
	wg.Wait()
	sut.hs = nil
	hooks.WaitQuiescent(vfWatchdog)
	lateAcks := int64(0)
	for i, cl := range clients {
		if cl.errs != "" {
			res.Violate(id, "c02:serve:client-error", fmt.Sprintf("client %d: %s", i, cl.errs), c)
			return
		}
		if _, all := cl.ackedBefore(0); all > ackedBefore[i] {
			lateAcks += all - ackedBefore[i]
		}
	}
	res.Event("serve.acks_before_close", func() (n int64) {
		for _, x := range ackedBefore {
			n += x
		}
		return
	}())
	res.Event("serve.acks_after_close_returned", lateAcks)
	// reopen the copy in this process (fresh directory, fresh instance)
	store.VFApplyConfig(c.Cfg, snap)
	hs2, err := store.NewHStore()
	if err != nil {
		res.Violate(id, "c02:serve:reopen-error", "the directory left by a graceful shutdown does not open: "+err.Error(), c)
		return
	}
	sc := &StorageClient{hs2}
	for i, cl := range clients {
		res.Eval(1)
		want := ackedBefore[i]
		it, err := sc.Get(cl.key)
		got := int64(0)
		if err != nil {
			res.Violate(id, "c02:serve:get-error", fmt.Sprintf("key %q after the graceful shutdown and restart: %v", cl.key, err), c)
			continue
		}
		if it != nil {
			f := strings.SplitN(string(it.Body), "|", 3)
			if len(f) == 3 && f[0] == cl.key {
				fmt.Sscanf(f[1], "%d", &got)
			} else {
				res.Violate(id, "c02:serve:foreign-value", fmt.Sprintf("key %q reads bytes that were not written to it: %.60q", cl.key, it.Body), c)
				continue
			}
			vfTakeItem(cl.key, it)
		}
		if got < want {
			res.Violate(id, "c02:serve:acknowledged-write-lost", fmt.Sprintf("key %q: the client had received STORED for write #%d before HStore.Close returned (Main's shutdown sequence: signal -> Server.Shutdown -> Serve returns -> Close); after the restart the key serves write #%d (0 = miss). %d writes were sent on this connection in all, %d acknowledged", cl.key, want, got, atomic.LoadInt64(&cl.sent), func() int64 { _, n := cl.ackedBefore(0); return n }()), c)
		}
	}
	hooks.WaitQuiescent(vfWatchdog)
	hs2.Close()
	hooks.WaitQuiescent(vfWatchdog)
	res.Seen(fmt.Sprintf("serve-shutdown/clients=%d/pause=%d/sleepers=%d/%s/late-acks=%v", c.Clients, c.PausePct, c.Sleepers, c.ResumeAt, lateAcks > 0))
	res.Event("serve.cases", 1)
}

func vfServeTrace(format string, a ...interface{}) {
	if os.Getenv("VERIF_TRACE_SERVE") != "" {
		fmt.Fprintf(os.Stderr, "TRACE "+format+"\n", a...)
	}
}
