//go:build verif
// +build verif

package gobeansdb

import (
	"bytes"
	"encoding/base64"
	"encoding/json"
	"fmt"
	"io/ioutil"
	"os"
	"os/exec"
	"path/filepath"
	"sort"
	"strings"
	"sync"
	"time"

	"github.com/douban/gobeansdb/store"
	"verif/model"
	"verif/ref"
	"verif/vfc"
)

// ---------------------------------------------------------------------------
// crash snapshots: the FS hook copies the bucket directory at every file-system
// mutation boundary ("before" and "after" each hooked operation). The handler
// holds one mutex from "before" to "after", so no other hooked mutation is in
// flight while a copy is taken: every snapshot is a prefix of completed
// syscalls, i.e. a state SIGKILL can leave.
// ---------------------------------------------------------------------------

type vfSnap struct {
	Dir    string `json:"dir"`
	Event  string `json:"event"` // "<op> <file> before|after"
	Op     string `json:"op"`
	Torn   string `json:"torn,omitempty"` // "file@length" for torn variants of a data write
	AtTake string `json:"at_take,omitempty"`
}

type vfSnapper struct {
	mu      sync.Mutex // held from FS before to FS after
	home    func() string
	out     string
	n       int
	snaps   []vfSnap
	active  bool
	max     int
	r       *ref.Rand
	pointOp map[string]bool // Point hooks that also trigger a snapshot (C07: gc.append.done)
}

func (s *vfSnapper) take(event, op string) string {
	if !s.active || s.n >= s.max {
		return ""
	}
	s.n++
	dir := filepath.Join(s.out, fmt.Sprintf("s%05d", s.n))
	if err := store.VFCopyDir(s.home(), dir); err != nil {
		return ""
	}
	s.snaps = append(s.snaps, vfSnap{Dir: dir, Event: event, Op: op, AtTake: vfDirListing(dir)})
	return dir
}

func (s *vfSnapper) fsHook(phase int, op, path string, off, n int64) {
	base := filepath.Base(path)
	if phase == 0 {
		s.mu.Lock()
		s.take(fmt.Sprintf("%s %s before", op, base), op)
		return
	}
	dir := s.take(fmt.Sprintf("%s %s after", op, base), op)
	if dir != "" && op == "write" && strings.HasSuffix(base, ".data") && n > 0 {
		// torn variants of this write: the file ends somewhere inside the written range
		cuts := map[int64]bool{}
		for c := int64(256); c < n; c += 256 {
			cuts[c] = true
		}
		for i := 0; i < 3; i++ {
			cuts[int64(s.r.Range(1, int(n)-1))] = true
		}
		var list []int64
		for c := range cuts {
			if c > 0 && c < n {
				list = append(list, c)
			}
		}
		sort.Slice(list, func(i, j int) bool { return list[i] < list[j] })
		if len(list) > 10 {
			step := len(list) / 10
			var l2 []int64
			for i := 0; i < len(list); i += step {
				l2 = append(l2, list[i])
			}
			list = l2
		}
		rel, _ := filepath.Rel(s.home(), path)
		for _, c := range list {
			if s.n >= s.max {
				break
			}
			s.n++
			tdir := filepath.Join(s.out, fmt.Sprintf("s%05d", s.n))
			if store.VFCopyDir(dir, tdir) != nil {
				continue
			}
			os.Truncate(filepath.Join(tdir, rel), off+c)
			s.snaps = append(s.snaps, vfSnap{Dir: tdir, Event: fmt.Sprintf("write %s torn", base), Op: "write-torn", Torn: fmt.Sprintf("%s@%d", base, off+c)})
		}
	}
	s.mu.Unlock()
}

// ---------------------------------------------------------------------------
// child B: a fresh process opens a snapshot and dumps what it serves
// ---------------------------------------------------------------------------

type vfServed struct {
	Found bool   `json:"found"`
	Val   string `json:"val,omitempty"` // base64
	Flag  uint32 `json:"flag,omitempty"`
	Ver   int32  `json:"ver,omitempty"`
	Err   string `json:"err,omitempty"`
}

type vfCrashBArgs struct {
	Cfg  store.VFConfig
	Home string
	Keys []string // base64 (keys may hold bytes that are not valid UTF-8, which JSON would replace)
	Out  string
}

func vfB64Keys(keys []string) (out []string) {
	for _, k := range keys {
		out = append(out, base64.StdEncoding.EncodeToString([]byte(k)))
	}
	return
}

type vfCrashBOut struct {
	Started bool                `json:"started"`
	Error   string              `json:"error,omitempty"`
	Keys    map[string]vfServed `json:"keys"`
}

func vfCrashB(env *vfc.Env) {
	var a vfCrashBArgs
	env.ParseArgs(&a)
	vfQuiet()
	out := vfCrashBOut{Keys: map[string]vfServed{}}
	write := func() {
		b, _ := json.Marshal(out)
		ioutil.WriteFile(a.Out, b, 0644)
	}
	store.VFApplyConfig(a.Cfg, a.Home)
	hs, err := store.NewHStore() // a Fatalf inside exits the process with status 1: the parent sees no output file
	if err != nil {
		out.Error = err.Error()
		write()
		return
	}
	out.Started = true
	sc := &StorageClient{hs}
	for _, k64 := range a.Keys {
		kb, _ := base64.StdEncoding.DecodeString(k64)
		k := string(kb)
		it, err := sc.Get(k)
		sv := vfServed{}
		if err != nil {
			sv.Err = err.Error()
		} else if it != nil {
			sv.Found, sv.Val, sv.Flag = true, base64.StdEncoding.EncodeToString(it.Body), uint32(it.Flag)
			if m, e := sc.Get("?" + k); e == nil && m != nil {
				fmt.Sscanf(string(m.Body), "%d", &sv.Ver)
			}
		}
		out.Keys[k64] = sv
	}
	write()
	env.Res.Eval(1)
	env.Res.Seen("b")
	env.Res.Seen("b2")
}

// ---------------------------------------------------------------------------
// oracle
// ---------------------------------------------------------------------------

type vfDurable struct {
	Rec   *ref.Record
	Chunk int
	Off   uint32
}

// vfScanSnapshot: newest intact record per key (file order: chunk, then offset)
// and whether any data file has a torn tail.
func vfScanSnapshot(dir string, bodyMax int64) (newest map[string]vfDurable, torn []string) {
	newest = map[string]vfDurable{}
	paths, _ := filepath.Glob(filepath.Join(dir, "*.data"))
	sort.Strings(paths)
	for _, p := range paths {
		var chunk int
		fmt.Sscanf(filepath.Base(p), "%03d.data", &chunk)
		b, err := ioutil.ReadFile(p)
		if err != nil {
			continue
		}
		recs, isTorn := ref.ScanFile(b, uint32(bodyMax))
		if isTorn {
			torn = append(torn, filepath.Base(p))
		}
		for _, sr := range recs {
			newest[string(sr.Rec.Key)] = vfDurable{sr.Rec, chunk, sr.Off}
		}
	}
	return
}

type vfCrashVerifier struct {
	cfg    store.VFConfig
	keys   []string
	res    *vfc.Result
	id     string
	prop   string
	replay interface{}
	// expected, when set, overrides the "newest intact record" rule (C07: exactly the pre-GC model)
	expected map[string]*ref.Entry
	// history: every value ever accepted per key (to classify wrong reads)
	written map[string]map[string]int32 // key -> base64 value -> version
}

func (v *vfCrashVerifier) verify(s vfSnap) {
	res := v.res
	res.Eval(1)
	nv0 := res.NViolations()
	newest, torn := vfScanSnapshot(s.Dir, v.cfg.BodyMax)
	state := vfIndexState(s.Dir)
	keep := ""
	if kd := os.Getenv("VERIF_KEEP_SNAPSHOTS"); kd != "" {
		keep = filepath.Join(kd, v.id+"-"+filepath.Base(s.Dir))
		store.VFCopyDir(s.Dir, keep)
		defer func() {
			if v.res.NViolations() == nv0 {
				os.RemoveAll(keep)
			}
		}()
	}
	detailTail := fmt.Sprintf("\ncrash point: %s %s\ndirectory at the crash: %s %s\n(listing when the snapshot was taken: %s)", s.Event, s.Torn, vfDirListing(s.Dir), keep, s.AtTake)
	outPath := filepath.Join(s.Dir, "..", filepath.Base(s.Dir)+".served.json")
	args, _ := json.Marshal(vfCrashBArgs{Cfg: v.cfg, Home: s.Dir, Keys: vfB64Keys(v.keys), Out: outPath})
	cmd := exec.Command(os.Args[0], "-mode", "db.crashb", "-args", string(args), "-work", filepath.Join(s.Dir, "..", "bwork"))
	var logbuf bytes.Buffer
	cmd.Stdout, cmd.Stderr = &logbuf, &logbuf
	done := make(chan error, 1)
	if err := cmd.Start(); err != nil {
		res.Inconc("cannot start the recovery child: " + err.Error())
		return
	}
	go func() { done <- cmd.Wait() }()
	select {
	case <-done:
	case <-time.After(vfWatchdog):
		cmd.Process.Kill()
		res.Inconc("recovery child exceeded the watchdog on " + s.Event)
		return
	}
	defer os.Remove(outPath)
	var out vfCrashBOut
	b, rerr := ioutil.ReadFile(outPath)
	if rerr == nil {
		rerr = json.Unmarshal(b, &out)
	}
	if rerr != nil || !out.Started {
		why := out.Error
		if rerr != nil {
			lt := logbuf.String()
			if len(lt) > 600 {
				lt = lt[len(lt)-600:]
			}
			why = "process exited without serving: " + strings.TrimSpace(lt)
		}
		res.Event("recovery.refused", 1)
		res.Seen(fmt.Sprintf("crash/%s/%s/refused", s.Op, state))
		if len(torn) == 0 {
			res.Violate(v.id, v.prop+":refused-without-torn-tail:"+s.Op, "after a kill at this point the store refuses to start although no data file ends in a partial record: "+why+detailTail, v.replay)
		}
		return
	}
	res.Event("recovery.served", 1)
	if len(torn) > 0 {
		res.Event("recovery.served_despite_torn_tail", 1)
	}
	res.Seen(fmt.Sprintf("crash/%s/%s/served/torn=%v", s.Op, state, len(torn) > 0))
	for _, k := range v.keys {
		got, answered := out.Keys[base64.StdEncoding.EncodeToString([]byte(k))]
		if !answered {
			res.Inconc("recovery child did not report key " + k)
			return
		}
		var want *ref.Entry
		if v.expected != nil {
			want = v.expected[k]
		} else if d, ok := newest[k]; ok {
			val, okv := vfLogicalValue(d.Rec)
			if !okv {
				continue
			}
			want = &ref.Entry{Ver: d.Rec.Ver, Value: val, Flag: d.Rec.Flag &^ ref.FlagCompress}
		}
		wantLive := want != nil && want.Ver > 0
		gv, _ := base64.StdEncoding.DecodeString(got.Val)
		switch {
		case got.Err != "":
			res.Violate(v.id, v.prop+":get-error:"+s.Op, fmt.Sprintf("key %q: get returns an error after recovery: %s; durable state of the key: %s", k, got.Err, vfWantStr(want))+detailTail, v.replay)
			return
		case wantLive && !got.Found:
			res.Violate(v.id, v.prop+":durable-value-missing:"+s.Op, fmt.Sprintf("key %q reads as a miss after recovery; durable state: %s", k, vfWantStr(want))+detailTail, v.replay)
			return
		case !wantLive && got.Found:
			res.Violate(v.id, v.prop+":deleted-or-unknown-key-served:"+s.Op, fmt.Sprintf("key %q returns a value (%d bytes, version %d, %s) after recovery; durable state: %s", k, len(gv), got.Ver, v.classify(k, got.Val), vfWantStr(want))+detailTail, v.replay)
			return
		case wantLive && (!bytes.Equal(gv, want.Value) || got.Flag != want.Flag || got.Ver != want.Ver):
			res.Violate(v.id, v.prop+":wrong-value:"+v.classify(k, got.Val)+":"+s.Op, fmt.Sprintf("key %q after recovery: %d bytes flag %#x version %d (%s); durable state: %s", k, len(gv), got.Flag, got.Ver, v.classify(k, got.Val), vfWantStr(want))+detailTail, v.replay)
			return
		}
	}
}

func (v *vfCrashVerifier) classify(key, b64 string) string {
	if ver, ok := v.written[key][b64]; ok {
		return fmt.Sprintf("older-own-version-%d", ver)
	}
	for k, m := range v.written {
		if _, ok := m[b64]; ok && k != key {
			return "another-keys-value"
		}
	}
	return "never-written-bytes"
}

func vfWantStr(e *ref.Entry) string {
	if e == nil {
		return "no record"
	}
	if e.Ver < 0 {
		return fmt.Sprintf("tombstone version %d", e.Ver)
	}
	return fmt.Sprintf("version %d flag %#x %d bytes", e.Ver, e.Flag, len(e.Value))
}

func vfIndexState(dir string) string {
	ents, _ := ioutil.ReadDir(dir)
	var h, s, m, tmp int
	for _, e := range ents {
		n := e.Name()
		switch {
		case strings.HasSuffix(n, ".tmp"):
			tmp++
		case strings.HasSuffix(n, ".idx.hash"):
			h++
		case strings.HasSuffix(n, ".idx.s"):
			s++
		case strings.HasSuffix(n, ".idx.m"):
			m++
		}
	}
	b := func(n int) string {
		if n > 1 {
			return "2+"
		}
		return fmt.Sprint(n)
	}
	return fmt.Sprintf("hash=%s,s=%s,m=%s,tmp=%s", b(h), b(s), b(m), b(tmp))
}

func vfDirListing(dir string) string {
	ents, _ := ioutil.ReadDir(dir)
	var l []string
	for _, e := range ents {
		l = append(l, fmt.Sprintf("%s:%d", e.Name(), e.Size()))
	}
	return strings.Join(l, " ")
}

func vfVerifyAll(v *vfCrashVerifier, snaps []vfSnap, workers int) {
	ch := make(chan vfSnap)
	var wg sync.WaitGroup
	for w := 0; w < workers; w++ {
		wg.Add(1)
		go func() {
			defer wg.Done()
			for s := range ch {
				v.verify(s)
				os.RemoveAll(s.Dir)
			}
		}()
	}
	for _, s := range snaps {
		ch <- s
	}
	close(ch)
	wg.Wait()
}

// ---------------------------------------------------------------------------
// C06: kill during normal operation
// ---------------------------------------------------------------------------

type vfC06Args struct {
	Histories int
	MaxSnaps  int
	Workers   int
}

// writtenRecorder wraps the SUT to remember every value ever accepted.
type vfWrittenRec struct {
	*vfSUT
	written map[string]map[string]int32
}

func (w *vfWrittenRec) Set(key string, val []byte, flag uint32, rev int32) (bool, error) {
	ok, err := w.vfSUT.Set(key, val, flag, rev)
	if ok && err == nil {
		if w.written[key] == nil {
			w.written[key] = map[string]int32{}
		}
		w.written[key][base64.StdEncoding.EncodeToString(val)] = int32(len(w.written[key]) + 1)
	}
	return ok, err
}

func vfC06(env *vfc.Env) {
	var a vfC06Args
	env.ParseArgs(&a)
	vfQuiet()
	res := env.Res
	if a.Workers == 0 {
		a.Workers = 3
	}
	rnd := ref.NewRand(env.Seed)
	hooks := vfc.InstallHooks()
	for h := 0; h < a.Histories; h++ {
		id := fmt.Sprintf("k%d", h)
		if !env.Want(id) {
			continue
		}
		r := rnd.Split(uint64(h))
		cfg := store.VFConfig{NumBucket: 1, TreeHeight: r.Range(2, 3), DataFileMax: int64(r.Pick(4, 6, 10, 4000<<12)) * 256, SplitCap: int64(r.Pick(2, 2, 3, 5, 1<<20)), IndexInterval: int64(r.Pick(64, 4096)), BodyMax: 1 << 20, BodyInC: int64(r.Pick(0, 4096)), TreeDump: r.Pick(1, 3)}
		keys := vfTagSafeKeys(r, r.Range(3, 7), cfg)
		o := model.GenOpts{NOps: r.Range(30, 70), MaxVal: 600, Maint: true, MaintPct: 25, Restart: true, NoIncr: r.Bool()}
		ops := model.GenHistory(r, keys, o)
		// values are kept incompressible-or-small so that the reference can read them from disk... any class is fine:
		// server-compressed records are expanded by the Go decoder in vfLogicalValue
		c := &vfHistCase{Cfg: cfg, Keys: keys, Ops: ops}
		res.Begin(id, c)
		base := filepath.Join(env.Work, id)
		sut, err := vfOpenSUT(cfg, filepath.Join(base, "store"), res)
		if err != nil {
			res.Violate(id, "c06:open-error", err.Error(), c)
			continue
		}
		sut.quiet = false // the post-rotation flush and the merge run when they run
		snapper := &vfSnapper{home: func() string { return sut.home }, out: filepath.Join(base, "snaps"), max: a.MaxSnaps, r: r.Split(99), active: true}
		os.MkdirAll(snapper.out, 0755)
		hooks.SetFS(snapper.fsHook)
		wr := &vfWrittenRec{vfSUT: sut, written: map[string]map[string]int32{}}
		run := model.NewRunner(wr, ref.NewRefMap(false), res, id, model.Options{Prefix: "c06-live", Replay: c})
		run.Run(ops)
		hooks.WaitQuiescent(vfWatchdog)
		snapper.mu.Lock()
		snapper.active = false
		snaps := snapper.snaps
		snapper.mu.Unlock()
		hooks.SetFS(nil)
		sut.Destroy()
		v := &vfCrashVerifier{cfg: cfg, keys: keys, res: res, id: id, prop: "c06", replay: c, written: wr.written}
		vfVerifyAll(v, snaps, a.Workers)
		res.Event("histories", 1)
		res.Event("snapshots", int64(len(snaps)))
		for _, s := range snaps {
			res.Event("snap."+s.Op, 1)
		}
		if len(res.Samples) < 2 && len(snaps) > 3 {
			res.Sample(map[string]interface{}{"case": id, "ops": len(ops), "snapshots": len(snaps), "events": []string{snaps[0].Event, snaps[len(snaps)/2].Event, snaps[len(snaps)-1].Event}})
		}
		os.RemoveAll(base)
	}
}
