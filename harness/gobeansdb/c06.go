//go:build verif
// +build verif

package gobeansdb

import (
	"bytes"
	"encoding/base64"
	"encoding/json"
	"fmt"
	"io/ioutil"
	"os"
	"os/exec"
	"path/filepath"
	"sort"
	"strings"
	"sync"
	"time"

	"github.com/douban/gobeansdb/store"
	"verif/model"
	"verif/ref"
	"verif/vfc"
)

// ---------------------------------------------------------------------------
// crash snapshots: the FS hook copies the bucket directory at every file-system
// mutation boundary ("before" and "after" each hooked operation). The handler
// holds one mutex from "before" to "after", so no other hooked mutation is in
// flight while a copy is taken: every snapshot is a prefix of completed
// syscalls, i.e. a state SIGKILL can leave.
// ---------------------------------------------------------------------------

type vfSnap struct {
	Dir    string `json:"dir"`
	Event  string `json:"event"` // "<op> <file> before|after"
	Op     string `json:"op"`
	Torn   string `json:"torn,omitempty"` // "file@length" for torn variants of a data write
	AtTake string `json:"at_take,omitempty"`
	Level2 bool   `json:"level2,omitempty"` // taken while a recovered store was running (second kill)
	Parent string `json:"parent,omitempty"` // the first kill, for second-level snapshots
}

type vfSnapper struct {
	mu      sync.Mutex // held from FS before to FS after
	home    func() string
	out     string
	n       int
	snaps   []vfSnap
	active  bool
	max     int
	r       *ref.Rand
	pointOp map[string]bool // Point hooks that also trigger a snapshot (C07: gc.append.done)
}

func (s *vfSnapper) take(event, op string) string {
	if !s.active || s.n >= s.max {
		return ""
	}
	s.n++
	dir := filepath.Join(s.out, fmt.Sprintf("s%05d", s.n))
	if err := store.VFCopyDir(s.home(), dir); err != nil {
		return ""
	}
	s.snaps = append(s.snaps, vfSnap{Dir: dir, Event: event, Op: op, AtTake: vfDirListing(dir)})
	return dir
}

func (s *vfSnapper) fsHook(phase int, op, path string, off, n int64) {
	base := filepath.Base(path)
	if phase == 0 {
		s.mu.Lock()
		s.take(fmt.Sprintf("%s %s before", op, base), op)
		return
	}
	dir := s.take(fmt.Sprintf("%s %s after", op, base), op)
	if dir != "" && op == "write" && strings.HasSuffix(base, ".data") && n > 0 {
		// torn variants of this write: the file ends somewhere inside the written range
		cuts := map[int64]bool{}
		for c := int64(256); c < n; c += 256 {
			cuts[c] = true
		}
		for i := 0; i < 3; i++ {
			cuts[int64(s.r.Range(1, int(n)-1))] = true
		}
		var list []int64
		for c := range cuts {
			if c > 0 && c < n {
				list = append(list, c)
			}
		}
		sort.Slice(list, func(i, j int) bool { return list[i] < list[j] })
		if len(list) > 10 {
			step := len(list) / 10
			var l2 []int64
			for i := 0; i < len(list); i += step {
				l2 = append(l2, list[i])
			}
			list = l2
		}
		rel, _ := filepath.Rel(s.home(), path)
		for _, c := range list {
			if s.n >= s.max {
				break
			}
			s.n++
			tdir := filepath.Join(s.out, fmt.Sprintf("s%05d", s.n))
			if store.VFCopyDir(dir, tdir) != nil {
				continue
			}
			os.Truncate(filepath.Join(tdir, rel), off+c)
			s.snaps = append(s.snaps, vfSnap{Dir: tdir, Event: fmt.Sprintf("write %s torn", base), Op: "write-torn", Torn: fmt.Sprintf("%s@%d", base, off+c)})
		}
	}
	s.mu.Unlock()
}

// ---------------------------------------------------------------------------
// child B: a fresh process opens a snapshot and dumps what it serves
// ---------------------------------------------------------------------------

type vfServed struct {
	Found bool   `json:"found"`
	Val   string `json:"val,omitempty"` // base64
	Flag  uint32 `json:"flag,omitempty"`
	Ver   int32  `json:"ver,omitempty"`
	Err   string `json:"err,omitempty"`
}

type vfCrashBArgs struct {
	Cfg  store.VFConfig
	Home string
	Keys []string // base64 (keys may hold bytes that are not valid UTF-8, which JSON would replace)
	Out  string
	// Stage2: the recovered store is not only read but used: the whole continuation
	// (recovery itself, further writes or another GC pass, clean Close) runs with the
	// snapshot handler active, so a second kill during or after recovery is explored
	// too; after the clean Close a copy of the directory is reopened and read again.
	Stage2  bool
	SnapOut string
	Max2    int   // second-level snapshots handed back (seeded sample) besides the closed directory
	Writes  int   // C06: writes issued through the recovered store
	GCAgain []int // C07: [begin, end, merge] of the interrupted pass, run again after recovery if still legal
	Pattern int   // 0: random sets/deletes with occasional flushes; 1: a few sets of distinct keys, each flushed (no hint split fills up)
	Seed    uint64
}

func vfB64Keys(keys []string) (out []string) {
	for _, k := range keys {
		out = append(out, base64.StdEncoding.EncodeToString([]byte(k)))
	}
	return
}

type vfCrashBOut struct {
	Started bool                `json:"started"`
	Error   string              `json:"error,omitempty"`
	Keys    map[string]vfServed `json:"keys"`
	// stage 2
	Stage2Done bool                `json:"stage2_done,omitempty"`
	Stage2Err  string              `json:"stage2_err,omitempty"`
	Wrote      map[string]vfServed `json:"wrote,omitempty"`   // acknowledged stage-2 writes (Found=false: delete)
	KeysGC     map[string]vfServed `json:"keys_gc,omitempty"` // read-back after the repeated GC pass
	GCInfo     string              `json:"gc_info,omitempty"`
	Keys2      map[string]vfServed `json:"keys2,omitempty"` // read-back after clean Close + reopen of a copy
	Snaps      []vfSnap            `json:"snaps,omitempty"`
	Produced   int                 `json:"produced,omitempty"` // second-level snapshots taken before sampling
}

func vfDumpServed(sc *StorageClient, keys []string) map[string]vfServed {
	m := map[string]vfServed{}
	for _, k64 := range keys {
		kb, _ := base64.StdEncoding.DecodeString(k64)
		k := string(kb)
		it, err := sc.Get(k)
		sv := vfServed{}
		if err != nil {
			sv.Err = err.Error()
		} else if it != nil {
			sv.Found, sv.Val, sv.Flag = true, base64.StdEncoding.EncodeToString(it.Body), uint32(it.Flag)
			if m, e := sc.Get("?" + k); e == nil && m != nil {
				fmt.Sscanf(string(m.Body), "%d", &sv.Ver)
			}
		}
		m[k64] = sv
	}
	return m
}

func vfCrashB(env *vfc.Env) {
	var a vfCrashBArgs
	env.ParseArgs(&a)
	vfQuiet()
	out := vfCrashBOut{Keys: map[string]vfServed{}}
	write := func() {
		b, _ := json.Marshal(out)
		ioutil.WriteFile(a.Out, b, 0644)
	}
	hooks := vfc.InstallHooks()
	var snapper *vfSnapper
	if a.Stage2 {
		snapper = &vfSnapper{home: func() string { return a.Home }, out: a.SnapOut, max: 400, r: ref.NewRand(a.Seed ^ 0x52), active: true}
		os.MkdirAll(a.SnapOut, 0755)
		hooks.SetFS(snapper.fsHook)
		store.VFSetSecsBeforeDump(-1)
	}
	store.VFApplyConfig(a.Cfg, a.Home)
	hs, err := store.NewHStore() // a Fatalf inside exits the process with status 1: the parent sees no output file
	if err != nil {
		out.Error = err.Error()
		write()
		return
	}
	out.Started = true
	sc := &StorageClient{hs}
	out.Keys = vfDumpServed(sc, a.Keys)
	if a.Stage2 {
		write() // the first read-back survives a death in stage 2
		vfCrashBStage2(env, &a, &out, hs, hooks, snapper)
	}
	write()
	env.Res.Eval(1)
	env.Res.Seen("b")
	env.Res.Seen("b2")
}

func vfCrashBStage2(env *vfc.Env, a *vfCrashBArgs, out *vfCrashBOut, hs *store.HStore, hooks *vfc.Hooks, snapper *vfSnapper) {
	r := ref.NewRand(a.Seed)
	sut := &vfSUT{cfg: a.Cfg, base: a.Home, home: a.Home, hs: hs, sc: &StorageClient{hs}, hooks: hooks, res: env.Res}
	out.Wrote = map[string]vfServed{}
	nw := a.Writes
	if nw > 1 {
		nw = r.Range(1, a.Writes)
	}
	first := r.Intn(len(a.Keys))
	for i := 0; i < nw; i++ {
		k64 := a.Keys[r.Intn(len(a.Keys))]
		if a.Pattern == 1 {
			k64 = a.Keys[(first+i)%len(a.Keys)]
		}
		kb, _ := base64.StdEncoding.DecodeString(k64)
		if a.Pattern == 0 && r.Intn(5) == 0 {
			if _, err := sut.Delete(string(kb)); err != nil {
				out.Stage2Err = fmt.Sprintf("delete of %q through the recovered store: %v", kb, err)
				return
			}
			out.Wrote[k64] = vfServed{}
		} else {
			val := []byte(fmt.Sprintf("stage2|%s|%d|", k64, i))
			for n := r.Pick(0, 10, 200, 230, 600); n > 0; n-- {
				val = append(val, byte('a'+r.Intn(26)))
			}
			flag := uint32(r.Intn(1000))
			ok, err := sut.Set(string(kb), val, flag, 0)
			if err != nil || !ok {
				out.Stage2Err = fmt.Sprintf("set of %q through the recovered store: ok=%v err=%v", kb, ok, err)
				return
			}
			out.Wrote[k64] = vfServed{Found: true, Val: base64.StdEncoding.EncodeToString(val), Flag: flag}
		}
		if a.Pattern == 1 {
			if r.Intn(3) != 0 {
				store.VFFlush(hs, true)
			}
		} else if r.Intn(3) == 0 {
			store.VFFlush(hs, r.Bool())
		}
	}
	if len(a.GCAgain) == 3 {
		hooks.WaitQuiescent(vfWatchdog)
		ranges := store.VFLegalRanges(hs, 0)
		if len(ranges) > 0 {
			rg := ranges[r.Intn(len(ranges))]
			for _, x := range ranges {
				if x[0] == a.GCAgain[0] && x[1] == a.GCAgain[1] {
					rg = x
				}
			}
			st := store.VFGCDirect(hs, 0, rg[0], rg[1], a.GCAgain[2] != 0)
			out.GCInfo = fmt.Sprintf("range [%d,%d] merge=%v released=%d err=%v", rg[0], rg[1], a.GCAgain[2] != 0, st.NumReleased, st.Err)
			hooks.WaitQuiescent(vfWatchdog)
			out.KeysGC = vfDumpServed(sut.sc, a.Keys)
		} else {
			out.GCInfo = "no legal range after recovery"
		}
	}
	hooks.WaitQuiescent(vfWatchdog)
	hs.Close()
	hooks.WaitQuiescent(vfWatchdog)
	snapper.mu.Lock()
	snapper.active = false
	snaps := snapper.snaps
	snapper.mu.Unlock()
	hooks.SetFS(nil)
	out.Produced = len(snaps)
	closed := filepath.Join(a.SnapOut, "closed")
	if err := store.VFCopyDir(a.Home, closed); err != nil {
		out.Stage2Err = "copy of the closed directory: " + err.Error()
		return
	}
	re := filepath.Join(a.SnapOut, "reopen")
	store.VFCopyDir(closed, re)
	store.VFApplyConfig(a.Cfg, re)
	hs2, err := store.NewHStore()
	if err != nil {
		out.Stage2Err = "reopen after the clean close of the recovered store: " + err.Error()
		return
	}
	out.Keys2 = vfDumpServed(&StorageClient{hs2}, a.Keys)
	hooks.WaitQuiescent(vfWatchdog)
	hs2.Close()
	hooks.WaitQuiescent(vfWatchdog)
	os.RemoveAll(re)
	// hand back a seeded sample of the second-level snapshots plus the closed directory
	keep := map[int]bool{}
	for len(keep) < a.Max2 && len(keep) < len(snaps) {
		keep[r.Intn(len(snaps))] = true
	}
	for i, s := range snaps {
		if keep[i] {
			s.Event = "2nd kill: " + s.Event
			s.Level2 = true
			out.Snaps = append(out.Snaps, s)
		} else {
			os.RemoveAll(s.Dir)
		}
	}
	out.Snaps = append(out.Snaps, vfSnap{Dir: closed, Event: "clean close after recovery", Op: "closed-after-recovery", Level2: true, AtTake: vfDirListing(closed)})
	out.Stage2Done = true
}

// ---------------------------------------------------------------------------
// oracle
// ---------------------------------------------------------------------------

type vfDurable struct {
	Rec   *ref.Record
	Chunk int
	Off   uint32
}

// vfScanSnapshot: newest intact record per key (file order: chunk, then offset)
// and whether any data file has a torn tail.
func vfScanSnapshot(dir string, bodyMax int64) (newest map[string]vfDurable, torn []string) {
	newest = map[string]vfDurable{}
	paths, _ := filepath.Glob(filepath.Join(dir, "*.data"))
	sort.Strings(paths)
	for _, p := range paths {
		var chunk int
		fmt.Sscanf(filepath.Base(p), "%03d.data", &chunk)
		b, err := ioutil.ReadFile(p)
		if err != nil {
			continue
		}
		recs, isTorn := ref.ScanFile(b, uint32(bodyMax))
		if isTorn {
			torn = append(torn, filepath.Base(p))
		}
		for _, sr := range recs {
			newest[string(sr.Rec.Key)] = vfDurable{sr.Rec, chunk, sr.Off}
		}
	}
	return
}

type vfCrashVerifier struct {
	cfg    store.VFConfig
	keys   []string
	res    *vfc.Result
	id     string
	prop   string
	replay interface{}
	// expected, when set, overrides the "newest intact record" rule (C07: exactly the pre-GC model)
	expected map[string]*ref.Entry
	// history: every value ever accepted per key (to classify wrong reads)
	written map[string]map[string]int32 // key -> base64 value -> version
	// stage 2 (see vfCrashBArgs): every stage2Every-th served snapshot is continued
	stage2Every, stage2Phase, max2, writes2 int
	gcAgain                                 []int
}

func (v *vfCrashVerifier) verify(s vfSnap) {
	res := v.res
	res.Eval(1)
	nv0 := res.NViolations()
	newest, torn := vfScanSnapshot(s.Dir, v.cfg.BodyMax)
	state := vfIndexState(s.Dir)
	keep := ""
	if kd := os.Getenv("VERIF_KEEP_SNAPSHOTS"); kd != "" {
		keep = filepath.Join(kd, v.id+"-"+filepath.Base(s.Dir))
		store.VFCopyDir(s.Dir, keep)
		defer func() {
			if v.res.NViolations() == nv0 {
				os.RemoveAll(keep)
			}
		}()
	}
	lvl := ""
	if s.Level2 {
		lvl = "2nd:"
	}
	detailTail := fmt.Sprintf("\ncrash point: %s %s\ndirectory at the crash: %s %s\n(listing when the snapshot was taken: %s)", s.Event, s.Torn, vfDirListing(s.Dir), keep, s.AtTake)
	if s.Parent != "" {
		detailTail += "\nfirst kill: " + s.Parent
	}
	// every stage2Every-th snapshot is continued, and every snapshot whose index files are
	// ahead of the data files (or that has a torn tail and is served anyway)
	stage2 := !s.Level2 && v.stage2Every > 0 && vfSnapNo(s.Dir)%v.stage2Every == v.stage2Phase%v.stage2Every
	special := ""
	if !s.Level2 && v.stage2Every > 0 {
		if special = vfIndexAhead(s.Dir); special == "" && len(torn) > 0 {
			special = "torn-tail"
		}
		if special != "" {
			stage2 = true
		}
	}
	outPath := filepath.Join(s.Dir, "..", filepath.Base(s.Dir)+".served.json")
	ba := vfCrashBArgs{Cfg: v.cfg, Home: s.Dir, Keys: vfB64Keys(v.keys), Out: outPath}
	if stage2 {
		ba.Stage2, ba.SnapOut, ba.Max2, ba.Writes, ba.GCAgain = true, filepath.Join(s.Dir, "..", filepath.Base(s.Dir)+".l2"), v.max2, v.writes2, v.gcAgain
		ba.Seed = uint64(vfSnapNo(s.Dir))*2654435761 + 17
		if special != "" {
			ba.Max2 = 4 * v.max2
			if v.writes2 > 0 {
				ba.Pattern = 1 - vfSnapNo(s.Dir)%3%2 // two of three continuations keep every hint split open
			}
			res.Event("stage2.special."+special, 1)
		}
		defer os.RemoveAll(ba.SnapOut)
	}
	args, _ := json.Marshal(ba)
	cmd := exec.Command(os.Args[0], "-mode", "db.crashb", "-args", string(args), "-work", filepath.Join(s.Dir, "..", "bwork"))
	var logbuf bytes.Buffer
	cmd.Stdout, cmd.Stderr = &logbuf, &logbuf
	// many short-lived recovery processes run side by side: two scheduler threads each are plenty
	cmd.Env = append(os.Environ(), "GOMAXPROCS=2")
	done := make(chan error, 1)
	if err := cmd.Start(); err != nil {
		res.Inconc("cannot start the recovery child: " + err.Error())
		return
	}
	go func() { done <- cmd.Wait() }()
	select {
	case <-done:
	case <-time.After(vfWatchdog * 2):
		cmd.Process.Kill()
		res.Inconc("recovery child exceeded the watchdog on " + s.Event)
		return
	}
	defer os.Remove(outPath)
	logTail := func() string {
		lt := logbuf.String()
		if len(lt) > 900 {
			lt = lt[len(lt)-900:]
		}
		return strings.TrimSpace(lt)
	}
	var out vfCrashBOut
	b, rerr := ioutil.ReadFile(outPath)
	if rerr == nil {
		rerr = json.Unmarshal(b, &out)
	}
	if rerr != nil || !out.Started {
		why := out.Error
		if rerr != nil {
			why = "process exited without serving: " + logTail()
		}
		res.Event("recovery.refused", 1)
		res.Seen(fmt.Sprintf("crash/%s%s/%s/refused", lvl, s.Op, state))
		if len(torn) == 0 {
			res.Violate(v.id, v.prop+":"+lvl+"refused-without-torn-tail:"+s.Op, "after a kill at this point the store refuses to start although no data file ends in a partial record: "+why+detailTail, v.replay)
		}
		return
	}
	res.Event("recovery.served", 1)
	if len(torn) > 0 {
		res.Event("recovery.served_despite_torn_tail", 1)
	}
	res.Seen(fmt.Sprintf("crash/%s%s/%s/served/torn=%v", lvl, s.Op, state, len(torn) > 0))
	want := map[string]*ref.Entry{}
	for _, k := range v.keys {
		if v.expected != nil {
			want[k] = v.expected[k]
		} else if d, ok := newest[k]; ok {
			val, okv := vfLogicalValue(d.Rec)
			if !okv {
				want[k] = vfSkipEntry
				continue
			}
			want[k] = &ref.Entry{Ver: d.Rec.Ver, Value: val, Flag: d.Rec.Flag &^ ref.FlagCompress}
		}
	}
	if !v.judge(out.Keys, want, lvl+s.Op, "after recovery", detailTail) || !stage2 {
		return
	}
	// ---- stage 2: the recovered store is used, killed again, closed and reopened ----
	res.Event("stage2.runs", 1)
	if !out.Stage2Done {
		if out.Stage2Err != "" {
			res.Violate(v.id, v.prop+":stage2-error:"+s.Op, "the store recovered from this kill fails when it is used: "+out.Stage2Err+detailTail, v.replay)
		} else {
			res.Violate(v.id, v.prop+":stage2-died:"+s.Op, "the process that recovered from this kill died while the store was used / closed / reopened: "+logTail()+detailTail, v.replay)
		}
		return
	}
	res.Event("stage2.snapshots_produced", int64(out.Produced))
	res.Event("stage2.writes", int64(len(out.Wrote)))
	// expectation after the continuation: what recovery served, updated by the acknowledged stage-2 writes
	want2 := map[string]*ref.Entry{}
	for _, k := range v.keys {
		k64 := base64.StdEncoding.EncodeToString([]byte(k))
		if w, ok := out.Wrote[k64]; ok {
			if w.Found {
				val, _ := base64.StdEncoding.DecodeString(w.Val)
				want2[k] = &ref.Entry{Ver: vfAnyVersion, Value: val, Flag: w.Flag}
			}
			continue
		}
		if g := out.Keys[k64]; g.Found {
			val, _ := base64.StdEncoding.DecodeString(g.Val)
			want2[k] = &ref.Entry{Ver: g.Ver, Value: val, Flag: g.Flag}
		}
	}
	if out.KeysGC != nil {
		res.Event("stage2.gc_again", 1)
		if !v.judge(out.KeysGC, want2, "gc-again:"+s.Op, "after recovery and a repeated GC pass ("+out.GCInfo+")", detailTail) {
			return
		}
	}
	if !v.judge(out.Keys2, want2, "reopen:"+s.Op, "after recovery, use, clean close and reopen", detailTail) {
		return
	}
	for _, s2 := range out.Snaps {
		s2.Parent = s.Event + " " + s.Torn
		res.Event("stage2.snapshots_verified", 1)
		res.Event("snap2."+s2.Op, 1)
		v.verify(s2)
	}
}

// vfIndexAhead reports whether some index file of the snapshot describes more than the
// data files hold: an index file of a chunk that has no data file, or a hint whose
// recorded data size exceeds its data file.
func vfIndexAhead(dir string) string {
	ents, _ := ioutil.ReadDir(dir)
	size := map[int]int64{}
	for _, e := range ents {
		var c int
		if n, _ := fmt.Sscanf(e.Name(), "%03d.data", &c); n == 1 && strings.HasSuffix(e.Name(), ".data") {
			size[c] = e.Size()
		}
	}
	for _, e := range ents {
		var c, sp int
		name := e.Name()
		if !strings.HasSuffix(name, ".idx.s") && !strings.HasSuffix(name, ".idx.hash") && !strings.HasSuffix(name, ".idx.m") {
			continue
		}
		if n, _ := fmt.Sscanf(name, "%03d.%03d.idx.", &c, &sp); n < 1 {
			continue
		}
		sz, ok := size[c]
		if !ok {
			return "index-without-data-file"
		}
		if strings.HasSuffix(name, ".idx.s") {
			if b, err := ioutil.ReadFile(filepath.Join(dir, name)); err == nil {
				if hf, err := ref.ParseHintFile(b); err == nil && int64(hf.DataSize) > sz {
					return "hint-covers-more-than-data"
				}
			}
		}
	}
	return ""
}

// vfSkipEntry marks a key whose durable record cannot be expanded by the reference (not judged).
var vfSkipEntry = &ref.Entry{}

// vfAnyVersion: the version of a stage-2 write is whatever the store assigned (positive).
const vfAnyVersion = int32(1<<31 - 1)

func vfSnapNo(dir string) int {
	n := 0
	fmt.Sscanf(filepath.Base(dir), "s%d", &n)
	return n
}

// judge compares one read-back with the expectation; false after the first violation.
func (v *vfCrashVerifier) judge(served map[string]vfServed, wantm map[string]*ref.Entry, op, when, detailTail string) bool {
	res := v.res
	for _, k := range v.keys {
		got, answered := served[base64.StdEncoding.EncodeToString([]byte(k))]
		if !answered {
			res.Inconc("recovery child did not report key " + k)
			return false
		}
		want := wantm[k]
		if want == vfSkipEntry {
			continue
		}
		wantLive := want != nil && want.Ver > 0
		gv, _ := base64.StdEncoding.DecodeString(got.Val)
		switch {
		case got.Err != "":
			res.Violate(v.id, v.prop+":get-error:"+op, fmt.Sprintf("key %q: get returns an error %s: %s; expected state of the key: %s", k, when, got.Err, vfWantStr(want))+detailTail, v.replay)
			return false
		case wantLive && !got.Found:
			res.Violate(v.id, v.prop+":durable-value-missing:"+op, fmt.Sprintf("key %q reads as a miss %s; expected state: %s", k, when, vfWantStr(want))+detailTail, v.replay)
			return false
		case !wantLive && got.Found:
			res.Violate(v.id, v.prop+":deleted-or-unknown-key-served:"+op, fmt.Sprintf("key %q returns a value (%d bytes, version %d, %s) %s; expected state: %s", k, len(gv), got.Ver, v.classify(k, got.Val), when, vfWantStr(want))+detailTail, v.replay)
			return false
		case wantLive && (!bytes.Equal(gv, want.Value) || got.Flag != want.Flag || (want.Ver != vfAnyVersion && got.Ver != want.Ver)):
			res.Violate(v.id, v.prop+":wrong-value:"+v.classify(k, got.Val)+":"+op, fmt.Sprintf("key %q %s: %d bytes flag %#x version %d (%s); expected state: %s", k, when, len(gv), got.Flag, got.Ver, v.classify(k, got.Val), vfWantStr(want))+detailTail, v.replay)
			return false
		}
	}
	return true
}

func (v *vfCrashVerifier) classify(key, b64 string) string {
	if ver, ok := v.written[key][b64]; ok {
		return fmt.Sprintf("older-own-version-%d", ver)
	}
	for k, m := range v.written {
		if _, ok := m[b64]; ok && k != key {
			return "another-keys-value"
		}
	}
	return "never-written-bytes"
}

func vfWantStr(e *ref.Entry) string {
	if e == nil {
		return "no record"
	}
	if e.Ver < 0 {
		return fmt.Sprintf("tombstone version %d", e.Ver)
	}
	return fmt.Sprintf("version %d flag %#x %d bytes", e.Ver, e.Flag, len(e.Value))
}

func vfIndexState(dir string) string {
	ents, _ := ioutil.ReadDir(dir)
	var h, s, m, tmp int
	for _, e := range ents {
		n := e.Name()
		switch {
		case strings.HasSuffix(n, ".tmp"):
			tmp++
		case strings.HasSuffix(n, ".idx.hash"):
			h++
		case strings.HasSuffix(n, ".idx.s"):
			s++
		case strings.HasSuffix(n, ".idx.m"):
			m++
		}
	}
	b := func(n int) string {
		if n > 1 {
			return "2+"
		}
		return fmt.Sprint(n)
	}
	return fmt.Sprintf("hash=%s,s=%s,m=%s,tmp=%s", b(h), b(s), b(m), b(tmp))
}

func vfDirListing(dir string) string {
	ents, _ := ioutil.ReadDir(dir)
	var l []string
	for _, e := range ents {
		l = append(l, fmt.Sprintf("%s:%d", e.Name(), e.Size()))
	}
	return strings.Join(l, " ")
}

func vfVerifyAll(v *vfCrashVerifier, snaps []vfSnap, workers int) {
	ch := make(chan vfSnap)
	var wg sync.WaitGroup
	for w := 0; w < workers; w++ {
		wg.Add(1)
		go func() {
			defer wg.Done()
			for s := range ch {
				v.verify(s)
				os.RemoveAll(s.Dir)
			}
		}()
	}
	for _, s := range snaps {
		ch <- s
	}
	close(ch)
	wg.Wait()
}

// ---------------------------------------------------------------------------
// C06: kill during normal operation
// ---------------------------------------------------------------------------

type vfC06Args struct {
	Histories int
	MaxSnaps  int
	Workers   int
	// stage 2: every Stage2Every-th served snapshot is continued (writes / repeated GC,
	// second-level snapshots, clean close, reopen); Max2 second-level snapshots are verified
	Stage2Every, Max2, Writes2 int
}

// writtenRecorder wraps the SUT to remember every value ever accepted.
type vfWrittenRec struct {
	*vfSUT
	written map[string]map[string]int32
}

func (w *vfWrittenRec) Set(key string, val []byte, flag uint32, rev int32) (bool, error) {
	ok, err := w.vfSUT.Set(key, val, flag, rev)
	if ok && err == nil {
		if w.written[key] == nil {
			w.written[key] = map[string]int32{}
		}
		w.written[key][base64.StdEncoding.EncodeToString(val)] = int32(len(w.written[key]) + 1)
	}
	return ok, err
}

func vfC06(env *vfc.Env) {
	var a vfC06Args
	env.ParseArgs(&a)
	vfQuiet()
	res := env.Res
	if a.Workers == 0 {
		a.Workers = 3
	}
	rnd := ref.NewRand(env.Seed)
	hooks := vfc.InstallHooks()
	for h := 0; h < a.Histories; h++ {
		id := fmt.Sprintf("k%d", h)
		if !env.Want(id) {
			continue
		}
		r := rnd.Split(uint64(h))
		cfg := store.VFConfig{NumBucket: 1, TreeHeight: r.Range(2, 3), DataFileMax: int64(r.Pick(4, 6, 10, 4000<<12)) * 256, SplitCap: int64(r.Pick(2, 2, 3, 5, 1<<20)), IndexInterval: int64(r.Pick(64, 4096)), BodyMax: 1 << 20, BodyInC: int64(r.Pick(0, 4096)), TreeDump: r.Pick(1, 3)}
		keys := vfTagSafeKeys(r, r.Range(3, 7), cfg)
		o := model.GenOpts{NOps: r.Range(30, 70), MaxVal: 600, Maint: true, MaintPct: 25, Restart: true, NoIncr: r.Bool()}
		ops := model.GenHistory(r, keys, o)
		// values are kept incompressible-or-small so that the reference can read them from disk... any class is fine:
		// server-compressed records are expanded by the Go decoder in vfLogicalValue
		c := &vfHistCase{Cfg: cfg, Keys: keys, Ops: ops}
		res.Begin(id, c)
		base := filepath.Join(env.Work, id)
		sut, err := vfOpenSUT(cfg, filepath.Join(base, "store"), res)
		if err != nil {
			res.Violate(id, "c06:open-error", err.Error(), c)
			continue
		}
		sut.quiet = false // the post-rotation flush and the merge run when they run
		snapper := &vfSnapper{home: func() string { return sut.home }, out: filepath.Join(base, "snaps"), max: a.MaxSnaps, r: r.Split(99), active: true}
		os.MkdirAll(snapper.out, 0755)
		hooks.SetFS(snapper.fsHook)
		wr := &vfWrittenRec{vfSUT: sut, written: map[string]map[string]int32{}}
		run := model.NewRunner(wr, ref.NewRefMap(false), res, id, model.Options{Prefix: "c06-live", Replay: c})
		run.Run(ops)
		hooks.WaitQuiescent(vfWatchdog)
		snapper.mu.Lock()
		snapper.active = false
		snaps := snapper.snaps
		snapper.mu.Unlock()
		hooks.SetFS(nil)
		sut.Destroy()
		v := &vfCrashVerifier{cfg: cfg, keys: keys, res: res, id: id, prop: "c06", replay: c, written: wr.written,
			stage2Every: a.Stage2Every, stage2Phase: h + int(env.Seed%7), max2: a.Max2, writes2: a.Writes2}
		vfVerifyAll(v, snaps, a.Workers)
		res.Event("histories", 1)
		res.Event("snapshots", int64(len(snaps)))
		for _, s := range snaps {
			res.Event("snap."+s.Op, 1)
		}
		if len(res.Samples) < 2 && len(snaps) > 3 {
			res.Sample(map[string]interface{}{"case": id, "ops": len(ops), "snapshots": len(snaps), "events": []string{snaps[0].Event, snaps[len(snaps)/2].Event, snaps[len(snaps)-1].Event}})
		}
		os.RemoveAll(base)
	}
}
