//go:build verif
// +build verif

package gobeansdb

import (
	"fmt"
	"path/filepath"
	"strings"

	"github.com/douban/gobeansdb/store"
	"verif/model"
	"verif/ref"
	"verif/vfc"
)

type vfC10Args struct {
	Cfg    store.VFConfig
	Values int
	MaxVal int
}

// vfC10 stores values on both sides of every compression decision threshold and
// reads them back from the write buffer, from the flushed file, after rotation
// and after a restart with all indexes rebuilt; replies, flags and the value
// hash (meta-get and item listing) are judged by the reference map, and the
// record on disk is inspected to learn what the server decided.
func vfC10(env *vfc.Env) {
	var a vfC10Args
	env.ParseArgs(&a)
	vfQuiet()
	res := env.Res
	r := ref.NewRand(env.Seed)
	id := "c10"
	res.Begin(id, a)
	sut, err := vfOpenSUT(a.Cfg, filepath.Join(env.Work, id), res)
	if err != nil {
		res.Violate(id, "c10:open-error", err.Error(), nil)
		return
	}
	m := ref.NewRefMap(false)
	run := model.NewRunner(sut, m, res, id, model.Options{Prefix: "c10", Replay: a})
	keys := vfKeysForServed(r, 40, a.Cfg)
	depth := map[int]int{1: 0, 16: 1, 256: 2}[a.Cfg.NumBucket]
	checkListing := func(key, phase string) {
		v, _, live := m.Get(key)
		if !live || run.Failed() {
			return
		}
		h := ref.KeyHash([]byte(key))
		pfx := ref.PrefixString(ref.Digits(h, depth+a.Cfg.TreeHeight-1))
		it, err := sut.sc.Get("@" + pfx)
		if err != nil || it == nil {
			run.Fail("c10:listing-error:"+phase, fmt.Sprintf("get @%s (leaf of live key %q): item %v err %v", pfx, key, it, err))
			return
		}
		res.Eval(1)
		res.Event("c10.listing_vhash_checks."+phase, 1)
		want := fmt.Sprintf("%016x %d ", h, ref.ValueHash(v))
		if !strings.Contains(string(it.Body), want) && strings.Contains(string(it.Body), fmt.Sprintf("%016x ", h)) {
			_, comp := sut.Info(key)
			run.Fail("c10:listing-vhash:"+phase, fmt.Sprintf("listing @%s shows key %q (hash %016x, %d bytes, stored compressed: %v) with another value hash than that of the uncompressed bytes (%d):\n%s", pfx, key, h, len(v), comp, ref.ValueHash(v), it.Body))
		}
	}
	for i := 0; i < a.Values && !run.Failed(); i++ {
		key := keys[r.Intn(len(keys))]
		class := ref.ValueClasses[r.Intn(len(ref.ValueClasses))]
		kl := len(key)
		var n int
		side := ""
		switch r.Intn(7) {
		case 0:
			n, side = 256-24-kl-r.Range(0, 3), "rec<=256"
		case 1:
			n, side = 256-24-kl+r.Range(1, 4), "rec>256"
		case 2:
			n, side = r.Pick(10238, 10239, 10240), "probe<=10K"
		case 3:
			n, side = r.Pick(10241, 10242, 10240+2000), "probe>10K"
		case 4:
			n, side = r.Range(300, 4000), "mid"
		case 5:
			n, side = r.Range(20000, a.MaxVal), "large"
		default:
			n, side = r.Range(0, 200), "small"
		}
		if n < 0 {
			n = 0
		}
		if r.Intn(12) == 0 && a.MaxVal >= 30000 {
			// a block repeated at an exact boundary distance (LZ window / offset-field limits)
			class = "farrepeat"
			d := ref.FarRepeatDistances[r.Intn(len(ref.FarRepeatDistances))]
			for 2*d+300 > a.MaxVal {
				d /= 2
			}
			n, side = 2*d+r.Pick(0, 1, 300), "far-repeat"
		}
		// client flags are arbitrary 32-bit values; only bit 0x10000 is reserved for the server
		flag := uint32(r.Pick(0, 0, 1, 0x20, 0x20000, 0x00a20001, 0x80000000, int(r.Uint64()&0x7ffeffef)))
		flag &^= ref.FlagCompress
		if r.Intn(5) == 0 {
			flag |= ref.FlagClientCompress
			side += "/client-compressed"
		}
		spec := &ref.ValueSpec{Class: class, Size: n, Seed: r.Uint64(), Tag: fmt.Sprint(i)}
		ops := []model.Op{{K: "set", Key: key, Val: spec, Flag: flag}} // checked from the buffer by the runner
		ops = append(ops, model.Op{K: "flush"}, model.Op{K: "get", Key: key})
		for _, op := range ops {
			run.Step(op)
			if run.Failed() {
				break
			}
		}
		if run.Failed() {
			break
		}
		_, comp := sut.Info(key)
		outcome := "stored-plain"
		if comp {
			outcome = "stored-compressed"
		}
		res.Seen(fmt.Sprintf("c10/%s/%s/%s", class, side, outcome))
		res.Event("c10."+outcome, 1)
		res.Event("c10.side."+strings.Split(side, "/")[0]+"."+outcome, 1)
		// the value hash exposed to synchronisation: item line of the listing at the key's full hash
		checkListing(key, "after-set")
		if i%40 == 39 {
			rm := []string{"all", "s", "hash"}[r.Intn(3)]
			run.Step(model.Op{K: "restart", Rm: rm})
			// ... and again for every live key once the tree has been rebuilt from
			// hint files (which may themselves have been rebuilt from the data files)
			for _, k := range keys {
				checkListing(k, "after-restart-rm-"+rm)
			}
		}
	}
	if !run.Failed() {
		run.Step(model.Op{K: "restart", Rm: "all"})
		for _, k := range keys {
			checkListing(k, "after-restart-rm-all")
		}
	}
	sut.Destroy()
	res.Sample(map[string]interface{}{"values": a.Values, "cfg": a.Cfg})
}
