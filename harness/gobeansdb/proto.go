//go:build verif
// +build verif

package gobeansdb

import (
	"bytes"
	"fmt"
	"path/filepath"
	"sort"
	"strings"
	"sync"
	"time"
	"unsafe"

	"github.com/douban/gobeansdb/cmem"
	mc "github.com/douban/gobeansdb/memcache"
	"github.com/douban/gobeansdb/store"
	"verif/proto"
	"verif/ref"
	"verif/vfc"
)

type vfProtoArgs struct {
	Cfg       store.VFConfig
	Prop      string // "c11" or "c12": which signatures stop a case
	Streams   int    // grammar streams
	Cmds      int    // commands per stream
	Mutated   int    // mutated streams
	Attrib    int    // attributed single commands (C12)
	Conns     int    // concurrent connections for the stress part
	OOM       bool   // small body_big / flush_max and no flushing: drives the refusal class
	MaxBody   int
	CutSweeps int // connection dropped after every byte of a store command (one connection per cut)
	Slow      int // slow clients: the body of a store command arrives after the server's receive timeout
}

// ---- C-buffer registry (hook vhook.Mem) ----

type vfMemReg struct {
	mu      sync.Mutex
	live    map[uintptr]int
	unknown int64 // frees of blocks the registry does not know (double free / foreign)
	allocs  int64
	frees   int64
}

func newMemReg() *vfMemReg { return &vfMemReg{live: map[uintptr]int{}} }

func (m *vfMemReg) hook(op string, addr uintptr, n int) {
	m.mu.Lock()
	defer m.mu.Unlock()
	switch op {
	case "alloc":
		m.live[addr] = n
		m.allocs++
	case "free":
		if sz, ok := m.live[addr]; ok {
			delete(m.live, addr)
			m.frees++
			// poison: a reader that still holds the block sees garbage, not a stale value
			b := (*[1 << 30]byte)(unsafe.Pointer(addr))[:sz:sz]
			for i := range b {
				b[i] = 0xDD
			}
		} else {
			m.unknown++
		}
	}
}

func (m *vfMemReg) liveCount() (n int, bytes int) {
	m.mu.Lock()
	defer m.mu.Unlock()
	for _, sz := range m.live {
		n++
		bytes += sz
	}
	return
}

// ---- server under test ----

type vfServer struct {
	sut   *vfSUT
	stats *mc.Stats
	mem   *vfMemReg
	res   *vfc.Result
}

type vfAcct struct {
	GetC, GetS, SetC, SetS, FlushC, FlushS, AllocC, AllocS int64
	TokensMissing                                          int
	LiveC                                                  int
	UnknownFrees                                           int64
}

func (a vfAcct) zero() bool {
	return a == vfAcct{}
}

func (a vfAcct) String() string {
	return fmt.Sprintf("GetData %d/%dB SetData %d/%dB FlushData %d/%dB AllocRL %d/%dB tokens-missing %d live-C-blocks %d unknown-frees %d",
		a.GetC, a.GetS, a.SetC, a.SetS, a.FlushC, a.FlushS, a.AllocC, a.AllocS, a.TokensMissing, a.LiveC, a.UnknownFrees)
}

func (a vfAcct) minus(b vfAcct) vfAcct {
	return vfAcct{a.GetC - b.GetC, a.GetS - b.GetS, a.SetC - b.SetC, a.SetS - b.SetS, a.FlushC - b.FlushC, a.FlushS - b.FlushS, a.AllocC - b.AllocC, a.AllocS - b.AllocS,
		a.TokensMissing - b.TokensMissing, a.LiveC - b.LiveC, a.UnknownFrees - b.UnknownFrees}
}

// counters names the non-zero members (for signatures).
func (a vfAcct) counters() string {
	var p []string
	add := func(n string, c, s int64) {
		if c != 0 || s != 0 {
			p = append(p, n)
		}
	}
	add("GetData", a.GetC, a.GetS)
	add("SetData", a.SetC, a.SetS)
	add("FlushData", a.FlushC, a.FlushS)
	add("AllocRL", a.AllocC, a.AllocS)
	if a.TokensMissing != 0 {
		p = append(p, "tokens")
	}
	if a.LiveC != 0 {
		p = append(p, "live-C-blocks")
	}
	if a.UnknownFrees != 0 {
		p = append(p, "unknown-free")
	}
	return strings.Join(p, "+")
}

func vfStartServer(cfg store.VFConfig, dir string, res *vfc.Result) (*vfServer, error) {
	sut, err := vfOpenSUT(cfg, dir, res)
	if err != nil {
		return nil, err
	}
	mc.InitTokens()
	s := &vfServer{sut: sut, stats: mc.NewStats(), mem: newMemReg(), res: res}
	vfc.InstallHooks().SetMem(s.mem.hook)
	return s, nil
}

func (s *vfServer) stop() {
	vfc.InstallHooks().SetMem(nil)
	s.sut.Destroy()
}

// connect starts the real per-connection server loop on an in-memory connection.
func (s *vfServer) connect(name string) (*proto.Conn, chan struct{}) {
	c := proto.NewConn(name)
	done := make(chan struct{})
	sc := mc.VFNewServerConn(c)
	go func() {
		defer close(done)
		sc.Serve(&StorageClient{s.sut.hs}, s.stats)
	}()
	return c, done
}

// quiesce: all connections idle (the caller waited for that), data flushed,
// background goroutines done. Then the accounting snapshot is meaningful.
func (s *vfServer) quiesce() vfAcct {
	store.VFFlush(s.sut.hs, true)
	s.sut.waitBG("proto quiesce")
	store.VFFlush(s.sut.hs, true)
	avail, capacity := mc.VFTokens()
	live, _ := s.mem.liveCount()
	d := &cmem.DBRL
	s.mem.mu.Lock()
	unk := s.mem.unknown
	s.mem.mu.Unlock()
	return vfAcct{d.GetData.Count, d.GetData.Size, d.SetData.Count, d.SetData.Size, d.FlushData.Count, d.FlushData.Size, d.AllocRL.Count, d.AllocRL.Size,
		capacity - avail, live, unk}
}

// ---- model over the protocol ----

type vfProtoModel struct {
	m *ref.RefMap
	// bodyBig > 0: the server may refuse (NOT_STORED) a store command whose body
	// is larger than this while its flush buffer is over the limit
	bodyBig int
	// keys whose state the client cannot know: a noreply store that the server
	// may have refused silently
	uncertain map[string]bool
}

// vfStreamKeys returns n protocol-safe keys made unique by a suffix.
func vfStreamKeys(r *ref.Rand, n int, suffix string) []string {
	var keys []string
	for _, k := range proto.GenProtoKeys(r, n) {
		if len(k)+len(suffix) > 250 {
			k = k[:250-len(suffix)]
		}
		keys = append(keys, k+suffix)
	}
	return keys
}

// expect applies the command to the reference map and returns a checker for the reply.
func (pm *vfProtoModel) expect(c *proto.Cmd) func(r *proto.Reply) string {
	switch c.Verb {
	case "set", "add", "replace", "cas":
		key := c.Keys[0]
		var before *ref.Entry
		if e := pm.m.M[key]; e != nil {
			cp := *e
			before = &cp
		}
		wasUncertain := pm.uncertain[key]
		sr := pm.m.Set(key, c.Val, c.Flags, c.Rev)
		if c.NoReply && pm.bodyBig > 0 && len(c.Val) > pm.bodyBig {
			if pm.uncertain == nil {
				pm.uncertain = map[string]bool{}
			}
			pm.uncertain[key] = true
		} else if sr.Accepted {
			delete(pm.uncertain, key)
		}
		return func(r *proto.Reply) string {
			want := "NOT_STORED"
			if sr.Stored {
				want = "STORED"
			}
			if pm.bodyBig > 0 && len(c.Val) > pm.bodyBig && r.Kind == "status" && r.Status == "NOT_STORED" {
				// memory-shortage refusal: a legitimate reply; nothing was stored
				if before == nil {
					delete(pm.m.M, key)
				} else {
					pm.m.M[key] = before
				}
				if wasUncertain {
					// the refused command settles nothing: what an earlier noreply store did is still unknown
					if pm.uncertain == nil {
						pm.uncertain = map[string]bool{}
					}
					pm.uncertain[key] = true
				}
				return ""
			}
			if r.Kind != "status" || r.Status != want {
				return fmt.Sprintf("reply %q, reference says %s", r.Line, want)
			}
			return ""
		}
	case "delete":
		unc := pm.uncertain[c.Keys[0]]
		ok := pm.m.Delete(c.Keys[0])
		return func(r *proto.Reply) string {
			if unc {
				return "" // either status is consistent with what the client can know
			}
			want := "NOT_FOUND"
			if ok {
				want = "DELETED"
			}
			if r.Kind != "status" || r.Status != want {
				return fmt.Sprintf("reply %q, reference says %s", r.Line, want)
			}
			return ""
		}
	case "incr":
		if c.Special {
			return func(r *proto.Reply) string {
				if r.Kind != "error" {
					return fmt.Sprintf("reply %q to an incr with a malformed number, expected an error line", r.Line)
				}
				return ""
			}
		}
		unc := pm.uncertain[c.Keys[0]]
		val, _ := pm.m.Incr(c.Keys[0], int(c.Delta))
		return func(r *proto.Reply) string {
			if unc {
				return ""
			}
			if r.Kind != "number" || r.Num != int64(val) {
				return fmt.Sprintf("reply %q, reference says %d", r.Line, val)
			}
			return ""
		}
	case "get", "gets":
		if c.Special {
			return func(r *proto.Reply) string { return "" } // syntax only
		}
		want := map[string]*ref.Entry{}
		for _, k := range c.Keys {
			if e := pm.m.M[k]; e != nil && e.Ver > 0 {
				cp := *e
				want[k] = &cp
			}
		}
		return func(r *proto.Reply) string {
			if r.Kind != "values" {
				return fmt.Sprintf("reply %q to a get of valid keys, expected VALUE.../END", r.Line)
			}
			seen := map[string]bool{}
			for _, it := range r.Items {
				if pm.uncertain[it.Key] {
					seen[it.Key] = true
					continue
				}
				e := want[it.Key]
				if e == nil {
					return fmt.Sprintf("VALUE for %q which the reference does not have as a live requested key", it.Key)
				}
				if seen[it.Key] {
					return fmt.Sprintf("key %q returned twice", it.Key)
				}
				seen[it.Key] = true
				if !bytes.Equal(it.Data, e.Value) {
					return fmt.Sprintf("value of %q: %s", it.Key, ref.DiffBytes(it.Data, e.Value))
				}
				if uint32(it.Flags) != e.Flag || it.Flags > 0xffffffff {
					return fmt.Sprintf("flags of %q: %d, reference %d", it.Key, it.Flags, e.Flag)
				}
			}
			for k := range want {
				if !seen[k] && !pm.uncertain[k] {
					return fmt.Sprintf("live key %q missing from the reply", k)
				}
			}
			return ""
		}
	}
	return func(r *proto.Reply) string { return "" }
}

// chunks splits a byte stream into write chunks (1 byte at a time ... everything at once).
func vfChunks(r *ref.Rand, b []byte) [][]byte {
	mode := r.Intn(5)
	var out [][]byte
	for len(b) > 0 {
		n := len(b)
		switch mode {
		case 0:
			n = 1
		case 1:
			n = r.Range(1, 7)
		case 2:
			n = r.Range(1, 200)
		case 3:
			n = r.Range(1, 5000)
		}
		if n > len(b) {
			n = len(b)
		}
		out = append(out, b[:n])
		b = b[n:]
	}
	return out
}

func vfCmdList(cmds []*proto.Cmd, upto int) []string {
	var l []string
	for i, c := range cmds {
		if i > upto {
			break
		}
		l = append(l, fmt.Sprintf("%3d [%s] %s", i, c.Class, c.RawQ))
	}
	if len(l) > 45 {
		l = l[len(l)-45:]
	}
	return l
}

// vfGrammarStream sends one well-formed pipelined stream and applies the strict
// oracle: exactly one valid reply per command, in order, none for noreply,
// values and flags as in the reference map, nothing extra at the end.
func (s *vfServer) grammarStream(id string, r *ref.Rand, pm *vfProtoModel, keys []string, a *vfProtoArgs) {
	res := s.res
	g := proto.GenCfg{MaxBody: a.MaxBody, AllowQuit: true}
	if a.OOM {
		g.BigBody = int(a.Cfg.BodyBig)
	}
	var cmds []*proto.Cmd
	var stream []byte
	for i := 0; i < a.Cmds; i++ {
		c := proto.GenCommand(r, keys, g, i == a.Cmds-1)
		cmds = append(cmds, c)
		stream = append(stream, c.Raw...)
	}
	replay := map[string]interface{}{"cfg": a.Cfg, "commands": cmds}
	res.Begin(id, replay)
	conn, done := s.connect(id)
	for _, ch := range vfChunks(r, stream) {
		conn.Send(ch)
	}
	if !conn.WaitIdle(vfWatchdog) {
		res.Inconc("server did not become idle within the watchdog (" + id + ")")
		return
	}
	out := conn.Output()
	off := 0
	closedAt := -1
	for i, c := range cmds {
		res.Eval(1)
		res.Event("cmd."+c.Class, 1)
		chk := pm.expect(c) // state changes even for noreply commands
		if c.NoReply {
			continue
		}
		if off >= len(out) && conn.ServerClosed() {
			closedAt = i
			if !c.Closes {
				// the server closed before answering a command that does not close: find out which one caused it
				res.Violate(id, "c11:closed-without-reply:"+c.Class, fmt.Sprintf("the server closed the connection without answering command %d [%s]; all output parsed so far was consumed\n%s", i, c.Class, strings.Join(vfCmdList(cmds, i), "\n")), replay)
			}
			break
		}
		rep, err := proto.ParseReply(out[off:], c.Kind)
		if err == proto.ErrIncomplete {
			if c.Closes && conn.ServerClosed() {
				closedAt = i
				break
			}
			res.Violate(id, "c11:no-reply:"+c.Class, fmt.Sprintf("command %d [%s] %s got no (complete) reply although the server is idle waiting for more input; unparsed output: %q\n%s", i, c.Class, c.RawQ, vfTrunc(out[off:]), strings.Join(vfCmdList(cmds, i), "\n")), replay)
			return
		}
		if err != nil {
			res.Violate(id, "c11:malformed-reply:"+c.Class, fmt.Sprintf("command %d [%s] %s: %v; output at that point: %q\n%s", i, c.Class, c.RawQ, err, vfTrunc(out[off:]), strings.Join(vfCmdList(cmds, i), "\n")), replay)
			return
		}
		off += rep.Len
		if d := chk(rep); d != "" {
			res.Violate(id, "c11:wrong-reply:"+c.Class, fmt.Sprintf("command %d [%s] %s: %s\n%s", i, c.Class, c.RawQ, d, strings.Join(vfCmdList(cmds, i), "\n")), replay)
			return
		}
		res.Seen(fmt.Sprintf("reply/%s/%s", c.Class, rep.Kind))
	}
	if off < len(out) {
		res.Violate(id, "c11:extra-output", fmt.Sprintf("%d bytes of output beyond one reply per command: %q\n%s", len(out)-off, vfTrunc(out[off:]), strings.Join(vfCmdList(cmds, len(cmds)), "\n")), replay)
		return
	}
	if closedAt < 0 {
		conn.CloseWrite()
	}
	select {
	case <-done:
	case <-time.After(vfWatchdog):
		res.Inconc("server goroutine did not return after the client closed (" + id + ")")
	}
	res.Event("streams.grammar", 1)
}

func vfTrunc(b []byte) []byte {
	if len(b) > 200 {
		return b[:200]
	}
	return b
}

// probe: a fresh well-behaved connection must work whatever happened before.
func (s *vfServer) probe(id string, replay interface{}) bool {
	conn, done := s.connect(id + "-probe")
	conn.Send([]byte("version\r\nset vf-probe 7 0 5\r\nhello\r\nget vf-probe\r\n"))
	ok := conn.WaitIdle(vfWatchdog)
	out := conn.Output()
	conn.CloseWrite()
	<-done
	if !ok {
		s.res.Inconc("probe connection not idle within the watchdog")
		return false
	}
	if !bytes.HasPrefix(out, []byte("VERSION ")) || !bytes.HasSuffix(out, []byte("STORED\r\nVALUE vf-probe 7 5\r\nhello\r\nEND\r\n")) {
		s.res.Violate(id, "c11:later-connection-affected", fmt.Sprintf("a fresh connection after the case does not work: output %q", vfTrunc(out)), replay)
		return false
	}
	return true
}

// mutatedStream: weaker oracle for byte streams that are not well-formed.
func (s *vfServer) mutatedStream(id string, r *ref.Rand, keys []string, a *vfProtoArgs) (kind string, replay interface{}) {
	res := s.res
	g := proto.GenCfg{MaxBody: 200, SmallFlags: true}
	var stream []byte
	n := r.Range(1, 6)
	for i := 0; i < n; i++ {
		stream = append(stream, proto.GenCommand(r, keys, g, false).Raw...)
	}
	kind = []string{"truncate", "flip", "drop-terminator", "number", "long-line", "random", "cut-mid-body", "bad-count"}[r.Intn(8)]
	switch kind {
	case "truncate":
		stream = stream[:r.Intn(len(stream)+1)]
	case "flip":
		for k := r.Range(1, 4); k > 0; k-- {
			stream[r.Intn(len(stream))] ^= byte(1 << uint(r.Intn(8)))
		}
	case "drop-terminator":
		stream = bytes.Replace(stream, []byte("\r\n"), []byte([]string{"\n", "\r", ""}[r.Intn(3)]), r.Range(1, 2))
	case "number":
		// (negative flags would carry the server-reserved bit, a negative revision is a class of its own: neither here)
		stream = append([]byte(fmt.Sprintf("set %s %s %s %s\r\nabc\r\n", keys[0], []string{"1", "x", "99999999999999999999", "0"}[r.Intn(4)], []string{"0", "5", "z"}[r.Intn(3)],
			[]string{"3", "-3", "abc", "99999999999", "4294967299", "3 noreply extra", "3 x"}[r.Intn(7)])), stream...)
	case "long-line":
		stream = append([]byte("get "+strings.Repeat("k", r.Pick(300, 5000, 70000))+"\r\n"), stream...)
	case "random":
		stream = r.Bytes(r.Range(1, 400))
	case "cut-mid-body":
		body := r.Bytes(r.Range(10, 6000))
		s2 := []byte(fmt.Sprintf("set %s 0 0 %d\r\n", keys[0], len(body)))
		s2 = append(s2, body[:r.Intn(len(body))]...)
		stream = s2
	case "bad-count":
		stream = append([]byte(fmt.Sprintf("set %s 0 0 %d\r\nabcdef\r\nget %s\r\n", keys[0], r.Pick(2, 3, 5, 7, 8, 100), keys[0])), stream...)
	}
	replay = map[string]interface{}{"kind": kind, "stream": fmt.Sprintf("%q", stream)}
	res.Begin(id, replay)
	res.Eval(1)
	conn, done := s.connect(id)
	for _, ch := range vfChunks(r, stream) {
		conn.Send(ch)
	}
	conn.CloseWrite() // the client goes away after its last byte
	select {
	case <-done:
	case <-time.After(vfWatchdog):
		res.Violate(id, "c11:wedged:"+kind, "the server goroutine neither consumed the input nor closed: it is stuck", replay)
		return
	}
	if _, err := proto.ScanGeneric(conn.Output()); err != nil && err != proto.ErrIncomplete {
		res.Violate(id, "c11:malformed-output:"+kind, fmt.Sprintf("%v; output %q", err, vfTrunc(conn.Output())), replay)
	}
	res.Seen("mutated/" + kind)
	res.Event("streams.mutated."+kind, 1)
	return
}

func vfProto(env *vfc.Env) {
	var a vfProtoArgs
	env.ParseArgs(&a)
	vfQuiet()
	res := env.Res
	if a.MaxBody == 0 {
		a.MaxBody = 3000
	}
	if a.OOM {
		a.Cfg.BodyBig, a.Cfg.FlushMax = 300, 2000
	}
	if a.Slow > 0 {
		a.Cfg.TimeoutMS = 40 // only this job: the server's own wall-clock timeout replies are wanted here
	}
	srv, err := vfStartServer(a.Cfg, filepath.Join(env.Work, "srv"), res)
	if err != nil {
		res.Violate("startup", a.Prop+":open-error", err.Error(), nil)
		return
	}
	defer srv.stop()
	rnd := ref.NewRand(env.Seed)
	keys := vfStreamKeys(rnd, 12, "~k")
	oomLimit := 0
	if a.OOM {
		oomLimit = int(a.Cfg.BodyBig)
	}
	pm := &vfProtoModel{m: ref.NewRefMap(a.Cfg.CheckVHash), bodyBig: oomLimit}
	base := srv.quiesce()
	if !base.zero() {
		res.Inconc("accounting not zero on a fresh server: " + base.String())
	}
	report := func(id, class string, delta vfAcct, replay interface{}) {
		res.Violate(id, "c12:leak:"+class+":"+delta.counters(), fmt.Sprintf("after command class [%s] and quiescence (all connections idle, data flushed) the accounting moved by: %s", class, delta), replay)
	}
	// 1. grammar streams (C11 strict oracle), accounting checked after each stream
	for i := 0; i < a.Streams; i++ {
		id := fmt.Sprintf("g%d", i)
		if !env.Want(id) {
			continue
		}
		// every stream has its own keys and its own reference map: a stream that
		// ends in a violation cannot pollute the oracle of the next one
		sr := rnd.Split(uint64(i))
		skeys := vfStreamKeys(sr, 10, fmt.Sprintf("~g%d", i))
		srv.grammarStream(id, sr, &vfProtoModel{m: ref.NewRefMap(a.Cfg.CheckVHash), bodyBig: oomLimit}, skeys, &a)
		if !a.OOM {
			now := srv.quiesce()
			if d := now.minus(base); !d.zero() {
				res.Event("c12.stream_level_leaks", 1)
				report(id, "grammar-stream", d, nil)
				base = now
			}
		}
		srv.probe(id, nil)
	}
	// 2. mutated streams (weak oracle) + accounting + probe
	for i := 0; i < a.Mutated; i++ {
		id := fmt.Sprintf("m%d", i)
		if !env.Want(id) {
			continue
		}
		kind, replay := srv.mutatedStream(id, rnd.Split(uint64(100000+i)), keys, &a)
		now := srv.quiesce()
		if d := now.minus(base); !d.zero() {
			report(id, "mutated:"+kind, d, replay)
			base = now
		}
		srv.probe(id, replay)
	}
	// 3. attribution mode: one command at a time on one connection, accounting after each
	if a.Attrib > 0 {
		r := rnd.Split(777)
		// own keys and reference map: the class of a command depends on the key's
		// state, which only this part of the run changes
		keys := vfStreamKeys(r, 12, "~a")
		pm := &vfProtoModel{m: ref.NewRefMap(a.Cfg.CheckVHash)}
		conn, done := srv.connect("attrib")
		g := proto.GenCfg{MaxBody: a.MaxBody, NegativeRev: true}
		for i := 0; i < a.Attrib; i++ {
			id := fmt.Sprintf("a%d", i)
			c := proto.GenCommand(r, keys, g, false)
			if !env.Want(id) && env.Only != "" {
				continue
			}
			// what the key is right now decides the class (hit in buffer / on disk / miss / tombstone)
			state := ""
			if len(c.Keys) > 0 && !c.Special {
				e := pm.m.M[c.Keys[0]]
				switch {
				case e == nil:
					state = "/miss"
				case e.Ver < 0:
					state = "/tombstone"
				default:
					state = "/hit"
					if e.Flag == ref.FlagIncr {
						state = "/hit-counter"
					}
					if len(e.Value) > int(a.Cfg.BodyInC) {
						state += "-C"
					}
				}
			}
			class := c.Class + state
			if len(c.Val) > 10240 {
				class += "/body>10K" // beyond the compression probe size
			}
			res.Begin(id, map[string]interface{}{"class": class, "cmd": c})
			res.Eval(1)
			pm.expect(c)
			if conn.ServerClosed() {
				conn, done = srv.connect("attrib")
			}
			conn.Send(c.Raw)
			if !conn.WaitIdle(vfWatchdog) {
				res.Inconc("attribution connection not idle within the watchdog")
				break
			}
			now := srv.quiesce()
			if c.Kind == "store" && len(c.Keys) > 0 && len(c.Val) > 0 {
				// what the server decided for this value (inspected on the stored record)
				if e := pm.m.M[c.Keys[0]]; e == nil || e.Ver < 0 {
					// not stored according to the reference map (refused, invalid key, ...)
				} else if _, comp := srv.sut.Info(c.Keys[0]); comp {
					class += "/server-compressed"
					res.Event("attrib.stores_server_compressed", 1)
				}
			}
			if d := now.minus(base); !d.zero() {
				report(id, class, d, map[string]interface{}{"class": class, "cmd": c})
				base = now
			}
			res.Seen("attrib/" + class)
			res.Event("attrib.commands", 1)
		}
		conn.CloseWrite()
		<-done
	}
	// 3c. slow clients: the command line of a store command arrives, the body only after the
	// server's receive timeout. Whatever the server answers (RECV_TIMEOUT or, on a slow
	// machine, anything else), the accounting must be back at zero at quiescence. The pause
	// is input, not a verdict.
	for i := 0; i < a.Slow; i++ {
		id := fmt.Sprintf("slow%d", i)
		if !env.Want(id) && env.Only != "" {
			continue
		}
		r := rnd.Split(uint64(9900 + i))
		verb := []string{"set", "set", "add", "replace", "cas", "append"}[r.Intn(6)]
		body := proto.GenBody(r, r.Pick(10, 300, 5000, 20000))
		key := keys[r.Intn(len(keys))]
		head := fmt.Sprintf("%s %s %d 0 %d\r\n", verb, key, r.Intn(100), len(body))
		if verb == "cas" {
			head = fmt.Sprintf("cas %s %d 0 %d 7\r\n", key, r.Intn(100), len(body))
		}
		sizeClass := "C-allocated"
		if int64(len(body)) <= a.Cfg.BodyInC {
			sizeClass = "go-allocated"
		}
		res.Begin(id, map[string]interface{}{"verb": verb, "body": len(body)})
		res.Eval(1)
		conn, done := srv.connect(id)
		conn.Send([]byte(head))
		cut := r.Intn(len(body) + 1)
		conn.Send(body[:cut])
		time.Sleep(time.Duration(a.Cfg.TimeoutMS*2+20) * time.Millisecond)
		conn.Send(append(append([]byte{}, body[cut:]...), '\r', '\n'))
		if !conn.WaitIdle(vfWatchdog) {
			res.Inconc("slow-client connection not idle within the watchdog")
			break
		}
		out := string(conn.Output())
		kind := "other"
		switch {
		case strings.HasPrefix(out, "RECV_TIMEOUT"):
			kind = "RECV_TIMEOUT"
		case strings.HasPrefix(out, "STORED"), strings.HasPrefix(out, "NOT_STORED"), strings.HasPrefix(out, "EXISTS"), strings.HasPrefix(out, "NOT_FOUND"):
			kind = "served"
		}
		conn.CloseWrite()
		select {
		case <-done:
		case <-time.After(vfWatchdog):
			res.Violate(id, "c11:wedged:slow-body", fmt.Sprintf("%s with a late body: the server goroutine did not return after the client closed", verb), nil)
			continue
		}
		now := srv.quiesce()
		if d := now.minus(base); !d.zero() {
			report(id, "slow-body:"+verb+":"+sizeClass+":"+kind, d, map[string]interface{}{"verb": verb, "body_bytes": len(body), "reply": vfTrunc([]byte(out))})
			base = now
		}
		res.Seen("slow-body/" + verb + "/" + sizeClass + "/" + kind)
		res.Event("slow_body."+kind, 1)
	}
	// 3b. connection drop at EVERY byte of a store command: one connection per cut
	for sw := 0; sw < a.CutSweeps; sw++ {
		r := rnd.Split(uint64(8800 + sw))
		verb := []string{"set", "add", "replace", "cas", "append"}[r.Intn(5)]
		body := proto.GenBody(r, r.Pick(10, 80, 5000))
		key := keys[r.Intn(len(keys))]
		var raw []byte
		if verb == "cas" {
			raw = []byte(fmt.Sprintf("cas %s %d 0 %d 7\r\n", key, r.Intn(100), len(body)))
		} else {
			raw = []byte(fmt.Sprintf("%s %s %d 0 %d\r\n", verb, key, r.Intn(100), len(body)))
		}
		raw = append(append(raw, body...), '\r', '\n')
		step := 1
		if len(raw) > 400 {
			step = len(raw) / 200 // long bodies: every byte of the header and the tail, sampled inside the body
		}
		for cut := 0; cut <= len(raw); cut++ {
			if step > 1 && cut > 40 && cut < len(raw)-40 && cut%step != 0 {
				continue
			}
			id := fmt.Sprintf("cut%d-%d", sw, cut)
			if !env.Want(id) && env.Only != "" {
				continue
			}
			res.Begin(id, map[string]interface{}{"verb": verb, "cut": cut, "of": len(raw)})
			res.Eval(1)
			conn, done := srv.connect(id)
			conn.Send(raw[:cut])
			conn.CloseWrite()
			select {
			case <-done:
			case <-time.After(vfWatchdog):
				res.Violate(id, "c11:wedged:cut", fmt.Sprintf("%s command cut after %d of %d bytes: the server goroutine did not return", verb, cut, len(raw)), nil)
				continue
			}
			now := srv.quiesce()
			if d := now.minus(base); !d.zero() {
				stage := "header"
				if cut > len(raw)-len(body)-2 {
					stage = "body"
				}
				if cut >= len(raw)-2 {
					stage = "terminator"
				}
				report(id, fmt.Sprintf("connection-drop:%s:%s", verb, stage), d, map[string]interface{}{"verb": verb, "cut": cut, "raw": fmt.Sprintf("%q", vfTrunc(raw))})
				base = now
			}
			res.Event("cut_connections", 1)
		}
		res.Seen(fmt.Sprintf("cut-sweep/%s/body=%d", verb, len(body)))
	}
	// 4. stress: several connections at once, checked at the end
	if a.Conns > 1 {
		var wg sync.WaitGroup
		for ci := 0; ci < a.Conns; ci++ {
			wg.Add(1)
			r := rnd.Split(uint64(5000 + ci)) // split in the parent: the generator is not shared between goroutines
			go func(ci int, r *ref.Rand) {
				defer wg.Done()
				conn, done := srv.connect(fmt.Sprintf("stress-%d", ci))
				g := proto.GenCfg{MaxBody: a.MaxBody}
				for i := 0; i < a.Cmds; i++ {
					conn.Send(proto.GenCommand(r, keys, g, false).Raw)
					if i%8 == 0 {
						conn.WaitIdle(vfWatchdog)
					}
				}
				conn.WaitIdle(vfWatchdog)
				if _, err := proto.ScanGeneric(conn.Output()); err != nil {
					res.Violate(fmt.Sprintf("stress-%d", ci), "c11:malformed-output:stress", err.Error(), nil)
				}
				conn.CloseWrite()
				<-done
			}(ci, r)
		}
		wg.Wait()
		now := srv.quiesce()
		res.Eval(1)
		if d := now.minus(base); !d.zero() {
			res.Event("c12.stress_level_leaks", 1)
			report("stress", fmt.Sprintf("stress-%d-connections", a.Conns), d, nil)
			base = now
		}
		res.Seen(fmt.Sprintf("stress/conns=%d", a.Conns))
	}
	al, fr := srv.mem.allocs, srv.mem.frees
	res.Event("c12.c_allocs_observed", al)
	res.Event("c12.c_frees_observed", fr)
	var ks []string
	for k := range pm.m.M {
		ks = append(ks, k)
	}
	sort.Strings(ks)
	res.Sample(map[string]interface{}{"keys": len(ks), "streams": a.Streams, "mutated": a.Mutated, "attributed": a.Attrib})
}
