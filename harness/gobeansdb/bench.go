//go:build verif
// +build verif

package gobeansdb

import (
	"fmt"
	"path/filepath"
	"time"

	"github.com/douban/gobeansdb/store"
	"verif/ref"
	"verif/vfc"
)

// vfBench measures the cost of the basic harness steps (diagnostic only).
func vfBench(env *vfc.Env) {
	vfQuiet()
	var cfg store.VFConfig
	env.ParseArgs(&cfg)
	t0 := time.Now()
	sut, err := vfOpenSUT(cfg, filepath.Join(env.Work, "b"), env.Res)
	if err != nil {
		fmt.Println("open:", err)
		return
	}
	fmt.Println("first open", time.Since(t0))
	r := ref.NewRand(1)
	keys := vfKeysForServed(r, 10, cfg)
	for i, k := range keys {
		sut.Set(k, []byte(fmt.Sprintf("value-%d", i)), 0, 0)
	}
	for i := 0; i < 5; i++ {
		t := time.Now()
		sut.Restart("all")
		fmt.Println("restart(all)", time.Since(t))
		t = time.Now()
		sut.Restart("")
		fmt.Println("restart()", time.Since(t))
	}
	sut.Destroy()
}
