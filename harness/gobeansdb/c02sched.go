//go:build verif
// +build verif

package gobeansdb

import (
	"fmt"
	"os"
	"path/filepath"
	"runtime"
	"sync"
	"sync/atomic"
	"time"

	"github.com/douban/gobeansdb/store"
	"verif/model"
	"verif/ref"
	"verif/vfc"
)

type vfSchedArgs struct {
	Cases int
	Cfg   store.VFConfig
}

// vfC02Sched: shutdown racing with the store's asynchronous flushes.
//
// kind "parked": the post-rotation flush goroutine is parked at its entry hook
// (before it takes the flush lock); Close() runs to completion; the directory is
// copied (= the process exited right after Close returned); only then is the
// goroutine released. The copy is what gets reopened.
//
// kind "racing": harness-driven equivalents of the periodic Flusher and
// HintDumper loop bodies run in goroutines with seeded yields at the flush and
// hint-dump hook points while Close() is called; the directory is copied when
// Close returns.
func vfC02Sched(env *vfc.Env) {
	var a vfSchedArgs
	env.ParseArgs(&a)
	vfQuiet()
	res := env.Res
	hooks := vfc.InstallHooks()
	rnd := ref.NewRand(env.Seed)
	for i := 0; i < a.Cases; i++ {
		kind := "parked"
		if i%2 == 1 {
			kind = "racing"
		}
		id := fmt.Sprintf("%s-%d", kind, i)
		if !env.Want(id) {
			continue
		}
		r := rnd.Split(uint64(i))
		cfg := a.Cfg
		cfg.NumBucket = 1
		cfg.DataFileMax = int64(r.Pick(3, 4, 6, 10)) * 256
		cfg.SplitCap = int64(r.Pick(2, 5, 64, 1<<20))
		keys := model.GenKeys(r, r.Range(3, 8))
		o := model.GenOpts{NOps: r.Range(6, 40), MaxVal: 600, NoIncr: true}
		ops := model.GenHistory(r, keys, o)
		c := &vfHistCase{Cfg: cfg, Keys: keys, Ops: ops}
		res.Begin(id, c)
		base := filepath.Join(env.Work, id)
		sut, err := vfOpenSUT(cfg, base, res)
		if err != nil {
			res.Violate(id, "c02:open-error", err.Error(), c)
			continue
		}
		sut.quiet = false
		m := ref.NewRefMap(cfg.CheckVHash)
		run := model.NewRunner(sut, m, res, id, model.Options{Prefix: "c02", Replay: c})

		var parked int32
		release := make(chan struct{})
		var relOnce sync.Once
		yr := ref.NewRand(r.Uint64())
		var ymu sync.Mutex
		clientG := vfc.GoID()
		if kind == "parked" {
			hooks.SetPoint(func(name string, x, y int64, s string) {
				// only the store's own post-rotation goroutine is parked, never the
				// goroutine that calls Set/Close
				if name == "data.flush.enter" && y >= 0 && vfc.GoID() != clientG {
					atomic.AddInt32(&parked, 1)
					<-release
				}
			})
		} else {
			hooks.SetPoint(func(name string, x, y int64, s string) {
				switch name {
				case "data.flush.enter", "data.flush.beforeWrite", "chunk.flush.beforeDetach", "chunk.flush.beforeFree", "hint.dump.enter", "hint.dump.beforeBufNil":
					ymu.Lock()
					k := yr.Intn(4)
					us := 50 + yr.Intn(300)
					ymu.Unlock()
					for j := 0; j < k; j++ {
						runtime.Gosched()
					}
					if k == 3 {
						time.Sleep(time.Duration(us) * time.Microsecond)
					}
				}
			})
		}
		stop := make(chan struct{})
		var wg sync.WaitGroup
		if kind == "racing" {
			hs := sut.hs
			store.VFSetMergeChan(true) // as HStore.HintDumper does: writers signal the dumper instead of dumping themselves
			wg.Add(2)
			go func() { // body of HStore.Flusher
				defer wg.Done()
				for {
					select {
					case <-stop:
						return
					default:
					}
					store.VFFlush(hs, false)
					runtime.Gosched()
				}
			}()
			go func() { // body of HStore.HintDumper
				defer wg.Done()
				for {
					select {
					case <-stop:
						return
					default:
					}
					store.VFDumpHints(hs)
					runtime.Gosched()
				}
			}()
		}
		ok := run.Run(ops)
		spawned := hooks.Count("data.bgflush.spawn")
		if ok {
			// shutdown
			sut.hs.Close()
			closed := filepath.Join(base, "closed-copy")
			cerr := store.VFCopyDir(sut.home, closed)
			pending := atomic.LoadInt32(&parked)
			relOnce.Do(func() { close(release) })
			close(stop)
			wg.Wait()
			hooks.SetPoint(nil)
			hooks.WaitQuiescent(vfWatchdog)
			sut.hs = nil
			if cerr != nil {
				res.Inconc("copy failed: " + cerr.Error())
			} else {
				os.RemoveAll(sut.home)
				sut.home = closed
				sut.quiet = true
				run.Tracef("Close() returned with %d post-rotation flush goroutine(s) still parked; directory copied; reopening the copy", pending)
				if err := sut.open(); err != nil {
					res.Violate(id, "c02:reopen-error:"+kind, "reopen after shutdown failed: "+err.Error(), c)
				} else {
					run.Opt.Prefix = "c02:" + kind
					run.MarkRestart("restart")
					run.CheckAll("after-shutdown-" + kind)
				}
			}
			if pending > 0 {
				res.Seen(fmt.Sprintf("shutdown/%s/pending-flush/splitcap=%d", kind, cfg.SplitCap))
				res.Event("shutdown.parked_flush_pending_at_close", 1)
			} else {
				res.Seen(fmt.Sprintf("shutdown/%s/no-pending/rotations=%v", kind, spawned > 0))
				res.Event("shutdown.no_pending_flush", 1)
			}
		} else {
			relOnce.Do(func() { close(release) })
			close(stop)
			wg.Wait()
			hooks.SetPoint(nil)
		}
		res.Event("shutdown."+kind, 1)
		sut.Destroy()
		if i < 2 {
			res.Sample(map[string]interface{}{"case": id, "kind": kind, "ops": len(ops), "data_file_max": cfg.DataFileMax})
		}
	}
}
