//go:build verif
// +build verif

package gobeansdb

import (
	"encoding/base64"
	"fmt"
	"os"
	"path/filepath"
	"sync"

	"github.com/douban/gobeansdb/store"
	"verif/model"
	"verif/ref"
	"verif/vfc"
)

// vfC07: kill during GC. A history builds a flushed, closed and reopened store
// with model M0; one GC pass runs with the snapshot handler active on every GC
// mutation (each relocated record append, truncate, removal of sources and
// hints, hint tmp create/rename, nextgc.txt, collision dump) plus torn variants
// of the relocated-record writes. A fresh process on each snapshot must serve
// exactly M0.
func vfC07(env *vfc.Env) {
	var a vfC06Args
	env.ParseArgs(&a)
	vfQuiet()
	res := env.Res
	if a.Workers == 0 {
		a.Workers = 3
	}
	rnd := ref.NewRand(env.Seed)
	hooks := vfc.InstallHooks()
	for h := 0; h < a.Histories; h++ {
		id := fmt.Sprintf("g%d", h)
		if !env.Want(id) {
			continue
		}
		r := rnd.Split(uint64(h))
		cfg := vfC05Config(r)
		stage := r.Intn(5)
		if stage >= 2 { // an earlier file is a destination only while it is smaller than the file limit minus body_max
			cfg.DataFileMax, cfg.BodyMax = int64(r.Pick(12, 16, 24))*256, int64(r.Pick(300, 512))
		}
		nkeys := r.Range(3, 7)
		if stage >= 2 {
			nkeys = r.Range(8, 14) // more live data than fits into the room of the earlier file
		}
		keys := vfTagSafeKeys(r, nkeys, cfg)
		maxVal := vfC05MaxVal(cfg)
		o := model.GenOpts{NOps: r.Range(25, 60), MaxVal: maxVal, Maint: true, MaintPct: 18, NoIncr: r.Bool()}
		if stage == 2 {
			o.NOps = r.Range(150, 250) // enough records for a handful of files above the compacted low end
		}
		ops := model.GenHistory(r, keys, o)
		if stage == 4 {
			// directed layout: keys that are set once in the first files and deleted later, the
			// delete records spread over the following files (many of them the last record of
			// their file); after a restart with a rebuilt tree those keys have no tree entry, so
			// a pass that starts above the first file keeps their delete records as a precaution:
			// records that the pass moves without any tree entry to repoint
			ops = nil
			pool := map[string]bool{}
			var all []string
			for len(all) < 30 {
				for _, k := range vfTagSafeKeys(r, 8, cfg) {
					if !pool[k] && len(k) < 60 {
						pool[k] = true
						all = append(all, k)
					}
				}
			}
			nd := r.Range(6, 14)
			doomed, hot := all[:nd], all[nd:nd+r.Range(3, 6)]
			keys = append(append([]string{}, doomed...), hot...)
			set := func(k string, lo, hi int) {
				ops = append(ops, model.Op{K: "set", Key: k, Val: &ref.ValueSpec{Class: "random", Size: r.Range(lo, hi), Seed: r.Uint64()}, Flag: uint32(r.Intn(1000))})
			}
			for _, k := range doomed {
				set(k, 20, 200)
			}
			for i := r.Range(2, 8); i > 0; i-- {
				set(hot[r.Intn(len(hot))], 150, maxVal)
			}
			for _, k := range doomed {
				for i := r.Range(0, 3); i > 0; i-- {
					set(hot[r.Intn(len(hot))], 150, maxVal)
				}
				if r.Intn(6) > 0 {
					ops = append(ops, model.Op{K: "del", Key: k})
				}
			}
			for i := r.Range(1, 4); i > 0; i-- {
				set(hot[r.Intn(len(hot))], 150, maxVal)
			}
		}
		if stage == 3 {
			// directed layout: cold keys and first versions of the hot keys in the first file(s),
			// then one round that rewrites every hot key (those records are all live and fill
			// whole files), then a few fillers that move the head on. Compacting the low end
			// leaves a small first file; the pass above it appends there until it is full and
			// then switches its destination onto the source it is reading.
			ops = nil
			pool := map[string]bool{}
			var all []string
			for len(all) < 40 {
				for _, k := range vfTagSafeKeys(r, 8, cfg) {
					if !pool[k] && len(k) < 60 {
						pool[k] = true
						all = append(all, k)
					}
				}
			}
			keys = nil
			next := 0
			set := func(k string, lo, hi int) int64 {
				n := r.Range(lo, hi)
				ops = append(ops, model.Op{K: "set", Key: k, Val: &ref.ValueSpec{Class: "random", Size: n, Seed: r.Uint64()}, Flag: uint32(r.Intn(1000))})
				return int64((24+len(k)+n+255)/256) * 256
			}
			// cold records fill the first file up to just below the "has room" limit
			var coldBytes int64
			for coldBytes < cfg.DataFileMax-cfg.BodyMax-int64(r.Pick(512, 768, 1024)) && next < 20 {
				coldBytes += set(all[next], 20, 200)
				keys = append(keys, all[next])
				next++
			}
			// first versions of a few hot keys fill the rest of the first file (superseded below)
			var hot []string
			var fill int64
			for fill < cfg.DataFileMax-coldBytes && next < len(all) {
				fill += set(all[next], 150, maxVal)
				hot = append(hot, all[next])
				keys = append(keys, all[next])
				next++
			}
			// the live round: every hot key (the ones above again, and new ones), a little more than a data file
			var roundBytes int64
			for _, k := range hot {
				roundBytes += set(k, 150, maxVal)
			}
			for roundBytes < cfg.DataFileMax*int64(r.Pick(10, 12, 15))/10 && next < len(all) {
				roundBytes += set(all[next], 150, maxVal)
				hot = append(hot, all[next])
				keys = append(keys, all[next])
				next++
			}
			if r.Bool() {
				ops = append(ops, model.Op{K: "del", Key: hot[r.Intn(len(hot))]})
			}
			for i := r.Range(1, len(hot)/2+1); i > 0; i-- { // third versions of some: move the head on
				set(hot[r.Intn(len(hot))], 150, maxVal)
			}
		}
		if stage == 2 {
			// cold keys: written early (and a few in the middle) and never again, so that the
			// low files keep some live records when they are compacted (a small earlier file)
			cold := vfTagSafeKeys(r, r.Range(3, 6), cfg)
			var pre []model.Op
			for i, k := range cold {
				dup := false
				for _, k2 := range keys {
					dup = dup || k2 == k
				}
				if dup {
					continue
				}
				op := model.Op{K: "set", Key: k, Val: &ref.ValueSpec{Class: "random", Size: r.Range(20, 200), Seed: r.Uint64()}, Flag: uint32(r.Intn(1000))}
				if i%2 == 0 {
					pre = append(pre, op)
				} else {
					at := r.Intn(len(ops)/2 + 1)
					ops = append(ops[:at], append([]model.Op{op}, ops[at:]...)...)
				}
				keys = append(keys, k)
			}
			ops = append(pre, ops...)
		}
		if stage == 4 {
			ops = append(ops, model.Op{K: "flush"}, model.Op{K: "restart", Rm: []string{"all", "hash"}[r.Intn(2)]})
		} else {
			ops = append(ops, model.Op{K: "flush"}, model.Op{K: "restart", Rm: []string{"", "all", "hash"}[r.Intn(3)]})
		}
		c := &vfHistCase{Cfg: cfg, Keys: keys, Ops: ops}
		res.Begin(id, c)
		base := filepath.Join(env.Work, id)
		sut, err := vfOpenSUT(cfg, filepath.Join(base, "store"), res)
		if err != nil {
			res.Violate(id, "c07:open-error", err.Error(), c)
			continue
		}
		wr := &vfWrittenRec{vfSUT: sut, written: map[string]map[string]int32{}}
		m := ref.NewRefMap(false)
		run := model.NewRunner(wr, m, res, id, model.Options{Prefix: "c07-live", Replay: c})
		if !run.Run(ops) {
			sut.Destroy()
			continue
		}
		// optionally an earlier pass first (keys already moved by a previous GC, gaps).
		// stage 2 compacts the low end first, which leaves a small first file: the
		// crash pass above it then appends to that earlier file and, when it fills
		// up in the middle of a source, switches its destination onto the source
		switch stage {
		case 1:
			run.Step(model.Op{K: "gc", Sel: r.Uint64() % 1000, Merge: r.Bool()})
			run.Step(model.Op{K: "flush"})
		case 4:
			// no earlier pass
		case 2, 3:
			sel := r.Uint64() % 1000
			if stage == 3 {
				sel = 0 // the first low range: the first file alone
			}
			run.Step(model.Op{K: "gc", Sel: sel, Merge: r.Bool(), Pref: "low"})
			run.Step(model.Op{K: "flush"})
			if r.Bool() { // hint files of the later sources on disk, as after a restart
				run.Step(model.Op{K: "restart", Rm: []string{"", "hash"}[r.Intn(2)]})
			}
		}
		ranges := store.VFLegalRanges(sut.hs, 0)
		if len(ranges) == 0 || run.Failed() {
			res.Event("no_legal_range", 1)
			sut.Destroy()
			continue
		}
		if stage == 4 {
			res.Event("layout_stage4_cases", 1)
		}
		if stage >= 2 && stage != 4 {
			res.Event(fmt.Sprintf("layout_stage%d_cases", stage), 1)
			if os.Getenv("VERIF_TRACE_C07") != "" {
				fmt.Fprintf(os.Stderr, "TRACE %s stage2 max=%d bodymax=%d chunks: %s ranges %v\n", id, cfg.DataFileMax, cfg.BodyMax, store.VFDescribeChunks(sut.hs, 0), ranges)
			}
			// prefer ranges that have a non-empty, non-full file below them
			_, chunks := store.VFChunks(sut.hs, 0)
			var pref [][4]int
			for _, x := range ranges {
				// the destination is the nearest non-empty file below the range, if it is not full
				near := -1
				for i, ch := range chunks {
					if ch.ID < x[0] && ch.Size > 0 {
						near = i
					}
				}
				if near >= 0 && int64(chunks[near].Size) < cfg.DataFileMax-cfg.BodyMax {
					pref = append(pref, x)
				}
			}
			if len(pref) > 0 {
				ranges = pref
				res.Event("staged_earlier_destination_available", 1)
			}
		}
		rg := ranges[r.Intn(len(ranges))]
		if stage == 4 { // a pass that does not start at the first file
			var high [][4]int
			for _, x := range ranges {
				if x[0] > 0 {
					high = append(high, x)
				}
			}
			if len(high) > 0 {
				rg = high[r.Intn(len(high))]
			}
		}
		if stage == 3 { // the file right above the small one, and a random end
			for _, x := range ranges {
				if x[0] < rg[0] {
					rg = x
				}
			}
			var same [][4]int
			for _, x := range ranges {
				if x[0] == rg[0] {
					same = append(same, x)
				}
			}
			rg = same[r.Intn(len(same))]
		}
		merge := r.Bool()
		// M0: what every key reads before the pass
		expected := map[string]*ref.Entry{}
		for _, k := range keys {
			if e := m.M[k]; e != nil {
				cp := *e
				expected[k] = &cp
			}
		}
		sut.waitBG("before the pass")
		pre := vfDataFiles(sut.home)
		snapper := &vfSnapper{home: func() string { return sut.home }, out: filepath.Join(base, "snaps"), max: a.MaxSnaps, r: r.Split(99), active: true}
		os.MkdirAll(snapper.out, 0755)
		hooks.SetFS(snapper.fsHook)
		dstSeen := map[[2]int64]bool{}
		var dstMu sync.Mutex
		hooks.SetPoint(func(name string, x, y int64, s string) {
			if name == "gc.fileBegin" || name == "gc.beforeClear" {
				dstMu.Lock()
				dstSeen[[2]int64{x, y}] = true
				dstMu.Unlock()
			}
			if name == "gc.append.done" {
				snapper.mu.Lock()
				snapper.take(fmt.Sprintf("gc-append chunk %d offset %d", x, y), "gc-append")
				snapper.mu.Unlock()
			}
		})
		st := store.VFGCDirect(sut.hs, 0, rg[0], rg[1], merge)
		sut.waitBG("after the pass")
		hooks.SetPoint(nil)
		snapper.mu.Lock()
		snapper.active = false
		snaps := snapper.snaps
		snapper.mu.Unlock()
		hooks.SetFS(nil)
		post := vfDataFiles(sut.home)
		dstKind := "in-place-or-fresh"
		for idn, p := range post {
			if idn < rg[0] {
				if q, ok := pre[idn]; ok && p.Size > q.Size {
					dstKind = "earlier-file"
				}
			}
		}
		if dstKind == "earlier-file" {
			// did the destination move up into the range (onto a source) during the pass?
			for sd := range dstSeen {
				if sd[1] >= int64(rg[0]) {
					dstKind = "earlier-file-then-switched-into-range"
					if sd[0] == sd[1] {
						dstKind = "earlier-file-then-switched-onto-source"
						break
					}
				}
			}
		}
		res.Event("gc_dst."+dstKind, 1)
		if os.Getenv("VERIF_TRACE_C07") != "" {
			fmt.Fprintf(os.Stderr, "TRACE %s stage=%d range %v merge=%v dst=%d kind=%s dstSeen=%v err=%v\n", id, stage, rg, merge, st.Dst, dstKind, dstSeen, st.Err)
		}
		info := map[string]interface{}{"case": c, "gc_range": []int{rg[0], rg[1]}, "merge": merge, "dst": st.Dst, "dst_kind": dstKind}
		sut.Destroy()
		mi := 0
		if merge {
			mi = 1
		}
		v := &vfCrashVerifier{cfg: cfg, keys: keys, res: res, id: id, prop: "c07", replay: info, written: wr.written, expected: expected,
			stage2Every: a.Stage2Every, stage2Phase: h + int(env.Seed%7), max2: a.Max2, gcAgain: []int{rg[0], rg[1], mi}}
		// context for signatures: which destination kind
		v.prop = "c07"
		vfVerifyAll(v, snaps, a.Workers)
		res.Event("gc_passes", 1)
		res.Event("snapshots", int64(len(snaps)))
		res.Seen(fmt.Sprintf("gc-crash/files=%d/dst=%s/merge=%v/released=%v", minI(rg[1]-rg[0]+1, 4), dstKind, merge, st.NumReleased > 0))
		for _, s := range snaps {
			res.Event("snap."+s.Op, 1)
		}
		if len(res.Samples) < 2 && len(snaps) > 2 {
			res.Sample(map[string]interface{}{"case": id, "range": []int{rg[0], rg[1]}, "merge": merge, "dst_kind": dstKind, "snapshots": len(snaps), "events": []string{snaps[0].Event, snaps[len(snaps)/2].Event, snaps[len(snaps)-1].Event}})
		}
		os.RemoveAll(base)
	}
	_ = base64.StdEncoding
}
