//go:build verif
// +build verif

package gobeansdb

import (
	"encoding/base64"
	"fmt"
	"os"
	"path/filepath"

	"github.com/douban/gobeansdb/store"
	"verif/model"
	"verif/ref"
	"verif/vfc"
)

// vfC07: kill during GC. A history builds a flushed, closed and reopened store
// with model M0; one GC pass runs with the snapshot handler active on every GC
// mutation (each relocated record append, truncate, removal of sources and
// hints, hint tmp create/rename, nextgc.txt, collision dump) plus torn variants
// of the relocated-record writes. A fresh process on each snapshot must serve
// exactly M0.
func vfC07(env *vfc.Env) {
	var a vfC06Args
	env.ParseArgs(&a)
	vfQuiet()
	res := env.Res
	if a.Workers == 0 {
		a.Workers = 3
	}
	rnd := ref.NewRand(env.Seed)
	hooks := vfc.InstallHooks()
	for h := 0; h < a.Histories; h++ {
		id := fmt.Sprintf("g%d", h)
		if !env.Want(id) {
			continue
		}
		r := rnd.Split(uint64(h))
		cfg := vfC05Config(r)
		keys := vfTagSafeKeys(r, r.Range(3, 7), cfg)
		maxVal := vfC05MaxVal(cfg)
		o := model.GenOpts{NOps: r.Range(25, 60), MaxVal: maxVal, Maint: true, MaintPct: 18, NoIncr: r.Bool()}
		ops := model.GenHistory(r, keys, o)
		ops = append(ops, model.Op{K: "flush"}, model.Op{K: "restart", Rm: []string{"", "all", "hash"}[r.Intn(3)]})
		c := &vfHistCase{Cfg: cfg, Keys: keys, Ops: ops}
		res.Begin(id, c)
		base := filepath.Join(env.Work, id)
		sut, err := vfOpenSUT(cfg, filepath.Join(base, "store"), res)
		if err != nil {
			res.Violate(id, "c07:open-error", err.Error(), c)
			continue
		}
		wr := &vfWrittenRec{vfSUT: sut, written: map[string]map[string]int32{}}
		m := ref.NewRefMap(false)
		run := model.NewRunner(wr, m, res, id, model.Options{Prefix: "c07-live", Replay: c})
		if !run.Run(ops) {
			sut.Destroy()
			continue
		}
		// optionally an earlier pass first (keys already moved by a previous GC, gaps)
		if r.Intn(3) == 0 {
			run.Step(model.Op{K: "gc", Sel: r.Uint64() % 1000, Merge: r.Bool()})
			run.Step(model.Op{K: "flush"})
		}
		ranges := store.VFLegalRanges(sut.hs, 0)
		if len(ranges) == 0 || run.Failed() {
			res.Event("no_legal_range", 1)
			sut.Destroy()
			continue
		}
		rg := ranges[r.Intn(len(ranges))]
		merge := r.Bool()
		// M0: what every key reads before the pass
		expected := map[string]*ref.Entry{}
		for _, k := range keys {
			if e := m.M[k]; e != nil {
				cp := *e
				expected[k] = &cp
			}
		}
		sut.waitBG("before the pass")
		pre := vfDataFiles(sut.home)
		snapper := &vfSnapper{home: func() string { return sut.home }, out: filepath.Join(base, "snaps"), max: a.MaxSnaps, r: r.Split(99), active: true}
		os.MkdirAll(snapper.out, 0755)
		hooks.SetFS(snapper.fsHook)
		hooks.SetPoint(func(name string, x, y int64, s string) {
			if name == "gc.append.done" {
				snapper.mu.Lock()
				snapper.take(fmt.Sprintf("gc-append chunk %d offset %d", x, y), "gc-append")
				snapper.mu.Unlock()
			}
		})
		st := store.VFGCDirect(sut.hs, 0, rg[0], rg[1], merge)
		sut.waitBG("after the pass")
		hooks.SetPoint(nil)
		snapper.mu.Lock()
		snapper.active = false
		snaps := snapper.snaps
		snapper.mu.Unlock()
		hooks.SetFS(nil)
		post := vfDataFiles(sut.home)
		dstKind := "in-place-or-fresh"
		for idn, p := range post {
			if idn < rg[0] {
				if q, ok := pre[idn]; ok && p.Size > q.Size {
					dstKind = "earlier-file"
				}
			}
		}
		info := map[string]interface{}{"case": c, "gc_range": []int{rg[0], rg[1]}, "merge": merge, "dst": st.Dst, "dst_kind": dstKind}
		sut.Destroy()
		mi := 0
		if merge {
			mi = 1
		}
		v := &vfCrashVerifier{cfg: cfg, keys: keys, res: res, id: id, prop: "c07", replay: info, written: wr.written, expected: expected,
			stage2Every: a.Stage2Every, stage2Phase: h + int(env.Seed%7), max2: a.Max2, gcAgain: []int{rg[0], rg[1], mi}}
		// context for signatures: which destination kind
		v.prop = "c07"
		vfVerifyAll(v, snaps, a.Workers)
		res.Event("gc_passes", 1)
		res.Event("snapshots", int64(len(snaps)))
		res.Seen(fmt.Sprintf("gc-crash/files=%d/dst=%s/merge=%v/released=%v", minI(rg[1]-rg[0]+1, 4), dstKind, merge, st.NumReleased > 0))
		for _, s := range snaps {
			res.Event("snap."+s.Op, 1)
		}
		if len(res.Samples) < 2 && len(snaps) > 2 {
			res.Sample(map[string]interface{}{"case": id, "range": []int{rg[0], rg[1]}, "merge": merge, "dst_kind": dstKind, "snapshots": len(snaps), "events": []string{snaps[0].Event, snaps[len(snaps)/2].Event, snaps[len(snaps)-1].Event}})
		}
		os.RemoveAll(base)
	}
	_ = base64.StdEncoding
}
