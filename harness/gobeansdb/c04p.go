//go:build verif
// +build verif

package gobeansdb

import (
	"fmt"
	"path/filepath"
	"runtime"
	"strings"
	"sync"
	"time"

	"github.com/douban/gobeansdb/cmem"
	mc "github.com/douban/gobeansdb/memcache"
	"github.com/douban/gobeansdb/store"
	"verif/lincheck"
	"verif/proto"
	"verif/ref"
	"verif/vfc"
)

// ---------------------------------------------------------------------------
// C04 at the text-protocol boundary: several connections, each served by the
// real per-connection loop (memcache.ServerConn.Serve -> StorageClient -> HStore),
// issue set / delete / get / multi-get / meta-get on shared keys. The history is
// recorded on the client side of the (in-memory) connection: invocation tick
// before the command is sent, response tick after the complete reply has been
// parsed by the independent reply parser. Per key the history is checked with
// porcupine against the sequential register; values are self-describing, flags
// are derived from the value id.
// ---------------------------------------------------------------------------

type vfPClient struct {
	srv  *vfServer
	conn *proto.Conn
	done chan struct{}
	off  int
	id   int
	seq  int
	ops  []lincheck.Op
	bad  string // first protocol-level problem (malformed / missing reply)
}

func vfFlagsOf(id string) uint32 { return uint32(vfTagSeed(id) % 9973) }

// roundtrip sends one command and parses exactly one reply.
func (c *vfPClient) roundtrip(raw []byte, kind string, r *ref.Rand) *proto.Reply {
	if c.bad != "" {
		return nil
	}
	if r != nil && r.Intn(3) == 0 && len(raw) > 4 { // the command arrives in two pieces
		cut := r.Range(1, len(raw)-1)
		c.conn.Send(raw[:cut])
		runtime.Gosched()
		c.conn.Send(raw[cut:])
	} else {
		c.conn.Send(raw)
	}
	if !c.conn.WaitIdle(vfWatchdog) {
		c.bad = "watchdog"
		return nil
	}
	out := c.conn.Output()
	rep, err := proto.ParseReply(out[c.off:], kind)
	if err != nil {
		c.bad = fmt.Sprintf("connection %d: command %q: %v (server idle; unparsed output %q)", c.id, vfTrunc(raw), err, vfTrunc(out[c.off:]))
		return nil
	}
	c.off += rep.Len
	if c.off != len(out) {
		c.bad = fmt.Sprintf("connection %d: %d bytes of output beyond the reply to %q: %q", c.id, len(out)-c.off, vfTrunc(raw), vfTrunc(out[c.off:]))
		return nil
	}
	return rep
}

func (c *vfPClient) set(key, class string, size int, r *ref.Rand) {
	c.seq++
	id, val := vfMakeValue(key, c.id, c.seq, class, size)
	raw := append([]byte(fmt.Sprintf("set %s %d 0 %d\r\n", key, vfFlagsOf(id), len(val))), val...)
	raw = append(raw, '\r', '\n')
	op := lincheck.Op{Client: c.id, Kind: "set", Key: key, ID: id, Inv: tick()}
	rep := c.roundtrip(raw, "store", r)
	op.Res = tick()
	switch {
	case rep == nil:
		return
	case rep.Status == "STORED":
		op.Accepted = true
	default:
		op.Err = "set answered " + rep.Line
	}
	c.ops = append(c.ops, op)
}

func (c *vfPClient) del(key string, r *ref.Rand) {
	op := lincheck.Op{Client: c.id, Kind: "del", Key: key, Inv: tick()}
	rep := c.roundtrip([]byte("delete "+key+"\r\n"), "delete", r)
	op.Res = tick()
	switch {
	case rep == nil:
		return
	case rep.Status == "DELETED":
		op.Accepted = true
	case rep.Status == "NOT_FOUND":
	default:
		op.Err = "delete answered " + rep.Line
	}
	c.ops = append(c.ops, op)
}

// get reads one or several keys with one command; every key's read shares the
// command's invocation / response ticks.
func (c *vfPClient) get(keys []string, final bool, r *ref.Rand) {
	inv := tick()
	rep := c.roundtrip([]byte("get "+strings.Join(keys, " ")+"\r\n"), "get", r)
	res := tick()
	if rep == nil {
		return
	}
	if rep.Kind != "values" {
		c.ops = append(c.ops, lincheck.Op{Client: c.id, Kind: "get", Key: keys[0], Inv: inv, Res: res, Err: "get answered " + rep.Line})
		return
	}
	got := map[string]proto.Value{}
	for _, it := range rep.Items {
		if _, dup := got[it.Key]; dup {
			continue
		}
		got[it.Key] = it
	}
	seen := map[string]bool{}
	for _, k := range keys {
		if seen[k] {
			continue
		}
		seen[k] = true
		op := lincheck.Op{Client: c.id, Kind: "get", Key: k, Inv: inv, Res: res, Final: final}
		if it, ok := got[k]; ok {
			id, vok := vfCheckValue(k, it.Data)
			op.GotID, op.ValueOK = id, vok
			if !vok {
				op.Err = fmt.Sprintf("get returned %d bytes that fail the self-check of a value written to this key (id %q)", len(it.Data), id)
			} else if uint32(it.Flags) != vfFlagsOf(id) {
				op.Err = fmt.Sprintf("get returned value %s with flags %d, it was set with flags %d", id, it.Flags, vfFlagsOf(id))
			}
		}
		c.ops = append(c.ops, op)
	}
	for k := range got {
		if !seen[k] {
			c.ops = append(c.ops, lincheck.Op{Client: c.id, Kind: "get", Key: keys[0], Inv: inv, Res: res, Err: fmt.Sprintf("reply carries key %q that was not asked for", k)})
		}
	}
}

// meta reads the version through "get ?key".
func (c *vfPClient) meta(key string, final bool, r *ref.Rand) {
	op := lincheck.Op{Client: c.id, Kind: "getmem", Key: key, Final: final, Inv: tick()}
	rep := c.roundtrip([]byte("get ?"+key+"\r\n"), "get", r)
	op.Res = tick()
	if rep == nil {
		return
	}
	if rep.Kind != "values" {
		op.Err = "meta-get answered " + rep.Line
	} else if len(rep.Items) == 1 {
		var ver int32
		if n, _ := fmt.Sscanf(string(rep.Items[0].Data), "%d", &ver); n != 1 {
			op.Err = fmt.Sprintf("malformed meta reply %q", rep.Items[0].Data)
		}
		op.Ver = ver
	} else if len(rep.Items) > 1 {
		op.Err = "meta-get answered with several items"
	}
	c.ops = append(c.ops, op)
}

type vfC04PCase struct {
	Cfg     store.VFConfig `json:"cfg"`
	Keys    []string       `json:"keys"`
	Clients int            `json:"connections"`
	Ops     int            `json:"ops_per_connection"`
	Seed    uint64         `json:"seed"`
	Level   int            `json:"level"`
}

func vfC04PHistory(env *vfc.Env, id string, r *ref.Rand, a *vfC04Args) {
	res := env.Res
	cfg := vfC04Config(r)
	cfg.CheckVHash = false
	c := &vfC04PCase{Cfg: cfg, Clients: r.Range(2, 10), Ops: r.Range(10, 40), Seed: r.Uint64(), Level: a.Level}
	if c.Clients*c.Ops > 300 {
		c.Ops = 300 / c.Clients
	}
	// protocol-safe keys that cannot be confused with the value tag syntax and leave room for the '?' prefix
	for want := r.Range(2, 6); len(c.Keys) < want; {
		for _, k := range vfStreamKeys(r, want, fmt.Sprintf("-%s", id)) {
			if !strings.ContainsAny(k, "<>|") && len(k) <= 240 && len(c.Keys) < want {
				c.Keys = append(c.Keys, k)
			}
		}
	}
	cfg.Served = nil // every bucket is served (an unserved bucket answers every command the same way)
	c.Cfg = cfg
	res.Begin(id, c)
	srv, err := vfStartServer(cfg, filepath.Join(env.Work, id), res)
	if err != nil {
		res.Violate(id, "c04p:open-error", err.Error(), c)
		return
	}
	defer srv.stop()
	srv.sut.quiet = false
	hooks := vfc.InstallHooks()
	sched := vfc.NewSched(c.Seed, a.Level)
	hooks.SetPoint(sched.Hook)
	store.VFSetMergeChan(true)
	stop := make(chan struct{})
	var bg sync.WaitGroup
	bg.Add(2)
	go func() {
		defer bg.Done()
		sched.SetRole("flusher")
		for i := 0; ; i++ {
			select {
			case <-stop:
				return
			default:
			}
			store.VFFlush(srv.sut.hs, i%3 != 0)
			runtime.Gosched()
			if i%5 == 0 {
				time.Sleep(50 * time.Microsecond)
			}
		}
	}()
	go func() {
		defer bg.Done()
		sched.SetRole("dumper")
		for {
			select {
			case <-stop:
				return
			default:
			}
			store.VFDumpHints(srv.sut.hs)
			time.Sleep(100 * time.Microsecond)
		}
	}()
	clients := make([]*vfPClient, c.Clients)
	var wg sync.WaitGroup
	for i := range clients {
		conn, done := srv.connect(fmt.Sprintf("%s-c%d", id, i))
		clients[i] = &vfPClient{srv: srv, conn: conn, done: done, id: i}
		cr := r.Split(uint64(2000 + i))
		wg.Add(1)
		go func(cl *vfPClient, cr *ref.Rand) {
			defer wg.Done()
			for n := 0; n < c.Ops && cl.bad == ""; n++ {
				key := c.Keys[cr.Intn(len(c.Keys))]
				switch x := cr.Intn(100); {
				case x < 38:
					cl.set(key, []string{"random", "text", "periodic"}[cr.Intn(3)], cr.Pick(30, 200, 300, 700, 5000, 12000), cr)
				case x < 50:
					cl.del(key, cr)
				case x < 75:
					cl.get([]string{key}, false, cr)
				case x < 87:
					ks := []string{key}
					for j := cr.Range(1, 3); j > 0; j-- {
						ks = append(ks, c.Keys[cr.Intn(len(c.Keys))])
					}
					cl.get(ks, false, cr)
				default:
					cl.meta(key, false, cr)
				}
			}
		}(clients[i], cr)
	}
	wg.Wait()
	close(stop)
	bg.Wait()
	hooks.SetPoint(nil)
	hooks.WaitQuiescent(vfWatchdog)
	var all []lincheck.Op
	for _, cl := range clients {
		all = append(all, cl.ops...)
		if cl.bad == "watchdog" {
			res.Inconc("a connection did not become idle within the watchdog (" + id + ")")
			return
		}
		if cl.bad != "" {
			res.Violate(id, "c04p:protocol", cl.bad, c)
			return
		}
	}
	// final reads on a fresh connection
	fconn, fdone := srv.connect(id + "-final")
	fin := &vfPClient{srv: srv, conn: fconn, done: fdone, id: 99}
	for _, k := range c.Keys {
		fin.get([]string{k}, true, nil)
		fin.meta(k, true, nil)
	}
	if fin.bad != "" {
		res.Violate(id, "c04p:protocol", fin.bad, c)
		return
	}
	all = append(all, fin.ops...)
	// every connection is closed by the client; the server goroutines must return
	for _, cl := range append(clients, fin) {
		cl.conn.CloseWrite()
		select {
		case <-cl.done:
		case <-time.After(vfWatchdog):
			res.Inconc("server goroutine did not return after the client closed (" + id + ")")
			return
		}
	}
	vfJudgeProto(res, id, c, c.Keys, all)
	// accounting at quiescence after concurrent protocol traffic (the rule of C12)
	if acct := srv.quiesce(); !acct.zero() {
		res.Violate(id, "c04p:accounting-not-zero:"+acct.counters(), "after the connections closed and a forced flush: "+acct.String(), c)
	}
	res.Event("proto.ops", int64(len(all)))
	res.Event("proto.histories", 1)
	sig, ev := sched.Signature()
	res.Seen(fmt.Sprintf("proto-schedule/%016x", sig))
	res.Event("hook_events", ev)
	_ = cmem.DBRL
	_ = mc.VFTokens
}

// vfJudgeProto: per key, operation errors are violations; otherwise porcupine decides.
func vfJudgeProto(res *vfc.Result, id string, c interface{}, keys []string, all []lincheck.Op) {
	byKey := map[string][]lincheck.Op{}
	for _, o := range all {
		byKey[o.Key] = append(byKey[o.Key], o)
	}
	overlaps := 0
	for _, k := range keys {
		ops := byKey[k]
		res.Eval(1)
		hist := func() string {
			var lines []string
			for _, o := range ops {
				lines = append(lines, "  "+o.String())
			}
			if len(lines) > 80 {
				lines = lines[len(lines)-80:]
			}
			return strings.Join(lines, "\n")
		}
		bad := false
		for _, o := range ops {
			if o.Err != "" {
				res.Violate(id, "c04p:op-error:"+o.Kind, fmt.Sprintf("key %q: %s\n-- history of the key --\n%s", k, o, hist()), map[string]interface{}{"case": c, "history": ops})
				bad = true
				break
			}
		}
		if bad {
			continue
		}
		for i, a := range ops {
			for _, b := range ops[i+1:] {
				if a.Client != b.Client && a.Inv < b.Res && b.Inv < a.Res {
					overlaps++
				}
			}
		}
		switch lincheck.PorcupineProto(ops, 60*time.Second) {
		case "illegal":
			res.Violate(id, "c04p:not-linearizable", fmt.Sprintf("key %q: the history recorded at the protocol boundary has no linearization (register model: set / delete / get bytes / meta-get version)\n-- history of the key --\n%s", k, hist()), map[string]interface{}{"case": c, "history": ops})
		case "unknown":
			res.Inconc("porcupine timed out on key " + k)
		}
	}
	res.Event("proto.overlapping_same_key_pairs", int64(overlaps))
}

func vfC04P(env *vfc.Env) {
	var a vfC04Args
	env.ParseArgs(&a)
	vfQuiet()
	rnd := ref.NewRand(env.Seed)
	for h := 0; h < a.Histories; h++ {
		id := fmt.Sprintf("p%d", h)
		if !env.Want(id) {
			continue
		}
		vfC04PHistory(env, id, rnd.Split(uint64(h)), &a)
	}
}
