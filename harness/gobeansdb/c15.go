//go:build verif
// +build verif

package gobeansdb

import (
	"bytes"
	"crypto/sha1"
	"fmt"
	"os"
	"path/filepath"
	"sort"
	"strings"

	"github.com/douban/gobeansdb/config"
	"github.com/douban/gobeansdb/store"
	"verif/model"
	"verif/ref"
	"verif/vfc"
)

type vfC15Args struct {
	NumBucket int
	Keys      int
	Patterns  int
}

// vfInventory maps every regular file below home to (size, sha1).
func vfInventory(home string) map[string][2]string {
	inv := map[string][2]string{}
	filepath.Walk(home, func(p string, info os.FileInfo, err error) error {
		if err != nil || info.IsDir() {
			return nil
		}
		b, _ := os.ReadFile(p)
		rel, _ := filepath.Rel(home, p)
		inv[rel] = [2]string{fmt.Sprint(len(b)), fmt.Sprintf("%x", sha1.Sum(b))}
		return nil
	})
	return inv
}

func vfBucketDirName(nb, id int) string {
	switch nb {
	case 1:
		return ""
	case 16:
		return fmt.Sprintf("%x", id)
	}
	return fmt.Sprintf("%x/%x", id/16, id%16)
}

// vfC15Shrink restarts the store over its home with a smaller served set and checks that
// the buckets taken away - whose directories still hold data files - are not served:
// gets miss, a set stores nothing anywhere below their directories, the top-level listing
// does not count them.
func vfC15Shrink(res *vfc.Result, id string, sut *vfSUT, r *ref.Rand, nb, depth int, served []int, vals map[string][]byte, info map[string]interface{}) {
	// buckets that hold at least one of the stored keys
	has := map[int]bool{}
	for k := range vals {
		has[ref.BucketOf(ref.KeyHash([]byte(k)), nb)] = true
	}
	var keep, gone []int
	for _, b := range served {
		if has[b] && (len(gone) == 0 || r.Intn(3) == 0) {
			gone = append(gone, b)
		} else {
			keep = append(keep, b)
		}
	}
	if len(gone) == 0 || nb == 1 {
		return
	}
	sut.cfg.Served = append([]int{}, keep...)
	if _, err := sut.Restart(""); err != nil {
		res.Violate(id, "c15:restart-error", "restart with a smaller served set: "+err.Error(), info)
		return
	}
	res.Event("shrunk_restarts", 1)
	isGone := map[int]bool{}
	for _, b := range gone {
		isGone[b] = true
	}
	before := vfInventory(sut.home)
	n := 0
	for k, v := range vals {
		b := ref.BucketOf(ref.KeyHash([]byte(k)), nb)
		res.Eval(1)
		it, err := sut.Get(k)
		switch {
		case isGone[b] && (err != nil || it != nil):
			res.Violate(id, "c15:stale-bucket-served", fmt.Sprintf("after a restart without bucket %d (its directory still holds data files) get %q answers item=%v err=%v; served now: %v", b, k, it != nil, err, keep), info)
			return
		case !isGone[b] && (err != nil || it == nil || !bytes.Equal(it.Val, v)):
			res.Violate(id, "c15:get-after-restart", fmt.Sprintf("get %q (bucket %d, still served) after the served set shrank: item %v err %v", k, b, it != nil, err), info)
			return
		}
		if isGone[b] && n < 5 {
			n++
			sut.Set(k, []byte("written after the bucket was taken away"), 0, 0)
			sut.Flush(true)
			after := vfInventory(sut.home)
			for f, st := range after {
				if before[f] != st {
					res.Violate(id, "c15:stale-bucket-wrote", fmt.Sprintf("set %q (bucket %d, no longer served) changed %s", k, b, f), info)
					return
				}
			}
			if it2, _ := sut.Get(k); it2 != nil {
				res.Violate(id, "c15:stale-bucket-served", fmt.Sprintf("set then get of %q (bucket %d, no longer served) returns a value", k, b), info)
				return
			}
		}
	}
	res.Seen(fmt.Sprintf("shrink/b%d/gone=%d/kept=%d", nb, minI(len(gone), 3), minI(len(keep), 3)))
}

func vfBucketHex(nb, b int) string {
	if nb == 256 {
		return fmt.Sprintf("%02x", b)
	}
	return fmt.Sprintf("%x", b)
}

// vfRouteYaml writes a route table in which this server (addr) has exactly the buckets
// of served; every other bucket goes to one of two other servers; one backup server.
func vfRouteYaml(r *ref.Rand, nb int, served []int) (text, addr string) {
	addr = fmt.Sprintf("host%d:%d", r.Intn(9), 7900+r.Intn(90))
	mine := map[int]bool{}
	for _, b := range served {
		mine[b] = true
	}
	others := [][]int{nil, nil}
	for b := 0; b < nb; b++ {
		if !mine[b] || r.Intn(4) == 0 { // replicas: some of this server's buckets are on another server too
			k := r.Intn(2)
			others[k] = append(others[k], b)
		}
	}
	hexList := func(bs []int) string {
		var l []string
		for _, b := range bs {
			h := vfBucketHex(nb, b)
			if r.Intn(5) == 0 {
				h = strings.ToUpper(h)
			}
			l = append(l, "\""+h+"\"")
		}
		return "[" + strings.Join(l, ", ") + "]"
	}
	var sb strings.Builder
	fmt.Fprintf(&sb, "numbucket: %d\nbackup:\n- backuphost:7900\nmain:\n", nb)
	order := r.Perm(3)
	for _, i := range order {
		switch i {
		case 0:
			fmt.Fprintf(&sb, "- addr: %s\n  buckets: %s\n", addr, hexList(served))
		default:
			fmt.Fprintf(&sb, "- addr: other%d:7900\n  buckets: %s\n", i, hexList(others[i-1]))
		}
	}
	return sb.String(), addr
}

func vfC15(env *vfc.Env) {
	var a vfC15Args
	env.ParseArgs(&a)
	vfQuiet()
	res := env.Res
	rnd := ref.NewRand(env.Seed)
	nb := a.NumBucket
	depth := map[int]int{1: 0, 16: 1, 256: 2}[nb]
	for p := 0; p < a.Patterns; p++ {
		r := rnd.Split(uint64(p))
		var served []int
		pattern := []string{"none", "one", "some", "all"}[p%4]
		switch pattern {
		case "none":
			served = []int{}
		case "one":
			served = []int{r.Intn(nb)}
		case "some":
			for i := 0; i < nb; i++ {
				if r.Intn(3) == 0 {
					served = append(served, i)
				}
			}
			if len(served) == 0 {
				served = []int{0}
			}
		case "all":
			for i := 0; i < nb; i++ {
				served = append(served, i)
			}
		}
		id := fmt.Sprintf("p%d-%s", p, pattern)
		if !env.Want(id) {
			continue
		}
		info := map[string]interface{}{"buckets": nb, "pattern": pattern, "served": served}
		res.Begin(id, info)
		// the served set as a deployment states it: a route table (yaml, bucket names in hex) from which
		// the server picks the buckets listed under its own address; what the store is configured with
		// is what the repository's route code makes of that table
		if nb > 1 {
			yamlText, addr := vfRouteYaml(r, nb, served)
			info["route_yaml"] = yamlText
			rt := &config.RouteTable{}
			if err := rt.LoadFromYaml([]byte(yamlText)); err != nil {
				res.Violate(id, "c15:route-table", "a well-formed route table does not load: "+err.Error(), info)
				continue
			}
			rc := rt.GetDBRouteConfig(addr)
			var got []int
			for b, st := range rc.BucketsStat {
				if st > 0 {
					got = append(got, b)
				}
			}
			res.Eval(1)
			if rc.NumBucket != nb || fmt.Sprint(got) != fmt.Sprint(append([]int{}, served...)) {
				res.Violate(id, "c15:route-table", fmt.Sprintf("route table for %s with %d buckets lists buckets %v for this server; the route code configures %d buckets, served %v", addr, nb, served, rc.NumBucket, got), info)
				continue
			}
			for _, hx := range rc.BucketsHex {
				var b int
				fmt.Sscanf(hx, "%x", &b)
				if hx != vfBucketHex(nb, b) {
					res.Violate(id, "c15:route-table", fmt.Sprintf("bucket %d of %d is named %q by the route code, its hex name is %q", b, nb, hx, vfBucketHex(nb, b)), info)
				}
			}
			res.Event("route_tables", 1)
			served = append([]int{}, got...) // (an empty, non-nil list: nil would mean "all buckets")
		}
		cfg := store.VFConfig{NumBucket: nb, Served: served, TreeHeight: r.Range(2, 3), BodyMax: 1 << 20, DataFileMax: int64(r.Pick(16, 4000<<12)) * 256}
		sut, err := vfOpenSUT(cfg, filepath.Join(env.Work, id), res)
		if err != nil {
			res.Violate(id, "c15:open-error", err.Error(), info)
			continue
		}
		isServed := map[int]bool{}
		for _, b := range served {
			isServed[b] = true
		}
		keys := model.GenKeys(r, a.Keys)
		m := &ref.Merkle{Depth: depth, Height: cfg.TreeHeight, Served: isServed}
		vals := map[string][]byte{}
		before := vfInventory(sut.home)
		failed := false
		for i, k := range keys {
			res.Eval(1)
			val := (&ref.ValueSpec{Class: "text", Size: r.Range(0, 400), Seed: r.Uint64(), Tag: fmt.Sprint(i)}).Build()
			h := ref.KeyHash([]byte(k))
			want := ref.BucketOf(h, nb)
			_, err := sut.Set(k, val, 1, 0)
			if err != nil {
				res.Violate(id, "c15:set-error", fmt.Sprintf("set %q: %v", k, err), info)
				failed = true
				break
			}
			sut.Flush(true)
			sut.waitBG("c15")
			after := vfInventory(sut.home)
			var changed []string
			for f, st := range after {
				if before[f] != st {
					changed = append(changed, f)
				}
			}
			for f := range before {
				if _, ok := after[f]; !ok {
					changed = append(changed, f+" (removed)")
				}
			}
			sort.Strings(changed)
			wantDir := vfBucketDirName(nb, want)
			for _, f := range changed {
				dir := filepath.Dir(f)
				if dir == "." {
					dir = ""
				}
				if !isServed[want] {
					res.Violate(id, "c15:unserved-bucket-wrote", fmt.Sprintf("key %q (hash %016x) belongs to unserved bucket %d, yet %q changed", k, h, want, f), info)
					failed = true
				} else if dir != wantDir {
					res.Violate(id, "c15:wrong-directory", fmt.Sprintf("key %q (hash %016x) belongs to bucket %d (directory %q), yet %q changed", k, h, want, wantDir, f), info)
					failed = true
				}
			}
			if isServed[want] {
				if len(changed) == 0 {
					res.Violate(id, "c15:nothing-written", fmt.Sprintf("key %q belongs to served bucket %d but no file changed after set + flush", k, want), info)
					failed = true
				}
				// the record must be in a data file of that directory
				found := false
				paths, _ := filepath.Glob(filepath.Join(sut.home, wantDir, "*.data"))
				for _, dp := range paths {
					b, _ := os.ReadFile(dp)
					recs, _ := ref.ScanFile(b, 1<<20)
					for _, sr := range recs {
						if string(sr.Rec.Key) == k && (bytes.Equal(sr.Rec.Value, val) || sr.Rec.Flag&ref.FlagCompress != 0) {
							found = true
						}
					}
				}
				if !found {
					res.Violate(id, "c15:record-not-in-bucket", fmt.Sprintf("no record of key %q in the data files of bucket directory %q", k, wantDir), info)
					failed = true
				}
				vals[k] = val
				m.Items = append(m.Items, ref.MItem{Hash: h, Ver: 1, Vhash: ref.ValueHash(val)})
				res.Event("routed.served", 1)
			} else {
				res.Event("routed.unserved", 1)
			}
			it, err := sut.Get(k)
			if err != nil {
				res.Violate(id, "c15:get-error", fmt.Sprintf("get %q: %v", k, err), info)
				failed = true
			} else if isServed[want] && (it == nil || !bytes.Equal(it.Val, val)) {
				res.Violate(id, "c15:get-served", fmt.Sprintf("get %q from served bucket %d does not return the value", k, want), info)
				failed = true
			} else if !isServed[want] && it != nil {
				res.Violate(id, "c15:get-unserved-hit", fmt.Sprintf("get %q: bucket %d is not served but a value came back", k, want), info)
				failed = true
			}
			res.Seen(fmt.Sprintf("route/b%d/%s/served=%v/digit=%x", nb, pattern, isServed[want], want%16))
			before = after
			if failed {
				break
			}
		}
		if !failed {
			// listings at prefixes shorter than, equal to and longer than the bucket depth
			prefixes := map[string]bool{"": true}
			for i := 0; i < 40 && i < len(keys); i++ {
				d := ref.Digits(ref.KeyHash([]byte(keys[i])), 16)
				for l := 0; l <= depth+cfg.TreeHeight+1 && l <= 16; l++ {
					prefixes[ref.PrefixString(d[:l])] = true
				}
			}
			for pfx := range prefixes {
				res.Eval(1)
				it, err := sut.sc.Get("@" + pfx)
				if err != nil {
					res.Violate(id, "c15:listdir-error", fmt.Sprintf("get @%s: %v", pfx, err), info)
					continue
				}
				var body []byte
				if it != nil {
					body = it.Body
				}
				var digs []int
				for _, ch := range pfx {
					digs = append(digs, strings.IndexRune("0123456789abcdef", ch))
				}
				want := m.List(digs)
				if d := want.Check(body); d != "" {
					res.Violate(id, "c15:listing", fmt.Sprintf("prefix %q with served pattern %s: %s", pfx, pattern, d), info)
				}
				rel := "longer"
				if len(pfx) < depth {
					rel = "shorter"
				} else if len(pfx) == depth {
					rel = "equal"
				}
				res.Seen(fmt.Sprintf("list/b%d/%s/prefix-%s-than-depth/%s", nb, pattern, rel, want.Kind))
			}
			// and after a restart the same routing still serves the same keys
			if _, err := sut.Restart("all"); err != nil {
				res.Violate(id, "c15:restart-error", err.Error(), info)
			} else {
				for k, v := range vals {
					it, err := sut.Get(k)
					if err != nil || it == nil || !bytes.Equal(it.Val, v) {
						res.Violate(id, "c15:get-after-restart", fmt.Sprintf("get %q after restart: item %v err %v", k, it != nil, err), info)
						break
					}
				}
				// the route changes: some buckets that hold data move to another server and this
				// one is restarted over the same home. It must not serve what is left on disk.
				vfC15Shrink(res, id, sut, r, nb, depth, served, vals, info)
			}
		}
		sut.Destroy()
		res.Event("patterns."+pattern, 1)
		if p < 2 {
			res.Sample(map[string]interface{}{"case": id, "buckets": nb, "pattern": pattern, "served": len(served), "keys": len(keys)})
		}
	}
}
