//go:build verif
// +build verif

package gobeansdb

import (
	"bufio"
	"encoding/json"
	"fmt"
	"os"
	"os/exec"
	"path/filepath"
	"runtime"
	"strings"
	"syscall"
	"time"

	"github.com/douban/gobeansdb/store"
	"verif/model"
	"verif/ref"
	"verif/vfc"
)

// Validation of the snapshot crash model against the real thing: a victim
// process runs a history with flusher and hint-dumper loops and is really
// SIGKILLed after a generated number of acknowledged operations; the directory
// it leaves behind is judged by the same oracle as the snapshots.

type vfVictimArgs struct {
	Cfg  store.VFConfig
	Home string
	Seed uint64
}

func vfVictimPlan(seed uint64, cfg store.VFConfig) ([]string, []model.Op) {
	r := ref.NewRand(seed)
	keys := vfTagSafeKeys(r, r.Range(3, 7), cfg)
	o := model.GenOpts{NOps: 400, MaxVal: 600, Maint: true, MaintPct: 10, NoIncr: true}
	return keys, model.GenHistory(r, keys, o)
}

func vfC06Victim(env *vfc.Env) {
	var a vfVictimArgs
	env.ParseArgs(&a)
	vfQuiet()
	_, ops := vfVictimPlan(a.Seed, a.Cfg)
	store.VFApplyConfig(a.Cfg, a.Home)
	hs, err := store.NewHStore()
	if err != nil {
		fmt.Println("open-error", err)
		return
	}
	sut := &vfSUT{cfg: a.Cfg, base: a.Home, home: a.Home, hs: hs, sc: &StorageClient{hs}, hooks: vfc.InstallHooks(), res: env.Res}
	store.VFSetMergeChan(true)
	go func() {
		for i := 0; ; i++ {
			store.VFFlush(hs, i%4 == 0)
			runtime.Gosched()
			time.Sleep(200 * time.Microsecond)
		}
	}()
	go func() {
		for {
			store.VFDumpHints(hs)
			time.Sleep(500 * time.Microsecond)
		}
	}()
	out := bufio.NewWriter(os.Stdout)
	for i, op := range ops {
		switch op.K {
		case "set":
			sut.Set(op.Key, op.Val.Build(), op.Flag, op.Rev)
		case "del":
			sut.Delete(op.Key)
		case "flush":
			store.VFFlush(hs, true)
		default:
			if op.Key != "" {
				sut.Get(op.Key)
			}
		}
		fmt.Fprintf(out, "ack %d\n", i)
		out.Flush()
	}
	fmt.Fprintln(out, "done")
	out.Flush()
	select {} // wait to be killed
}

func vfC06Kill(env *vfc.Env) {
	var a vfC06Args
	env.ParseArgs(&a)
	vfQuiet()
	res := env.Res
	rnd := ref.NewRand(env.Seed)
	for h := 0; h < a.Histories; h++ {
		id := fmt.Sprintf("kill%d", h)
		if !env.Want(id) {
			continue
		}
		r := rnd.Split(uint64(h))
		cfg := store.VFConfig{NumBucket: 1, TreeHeight: 3, DataFileMax: int64(r.Pick(6, 10, 40)) * 256, SplitCap: int64(r.Pick(2, 3, 5, 64)), IndexInterval: 512, BodyMax: 1 << 20, BodyInC: int64(r.Pick(0, 4096))}
		seed := r.Uint64()
		home := filepath.Join(env.Work, id, "home")
		os.MkdirAll(home, 0755)
		keys, ops := vfVictimPlan(seed, cfg)
		killAt := r.Range(1, len(ops)-1)
		info := map[string]interface{}{"cfg": cfg, "victim_seed": seed, "kill_after_ack": killAt}
		res.Begin(id, info)
		args, _ := json.Marshal(vfVictimArgs{Cfg: cfg, Home: home, Seed: seed})
		cmd := exec.Command(os.Args[0], "-mode", "db.c06victim", "-args", string(args), "-work", filepath.Join(env.Work, id, "vw"))
		stdout, _ := cmd.StdoutPipe()
		if err := cmd.Start(); err != nil {
			res.Inconc("cannot start the victim: " + err.Error())
			continue
		}
		sc := bufio.NewScanner(stdout)
		acked := -1
		for sc.Scan() {
			line := sc.Text()
			if strings.HasPrefix(line, "ack ") {
				fmt.Sscanf(line, "ack %d", &acked)
				if acked >= killAt {
					break
				}
			} else if line == "done" {
				break
			}
		}
		cmd.Process.Signal(syscall.SIGKILL)
		cmd.Wait()
		v := &vfCrashVerifier{cfg: cfg, keys: keys, res: res, id: id, prop: "c06", replay: info, written: map[string]map[string]int32{}}
		v.verify(vfSnap{Dir: home, Event: fmt.Sprintf("real SIGKILL after ack %d", acked), Op: "sigkill"})
		res.Event("real_sigkills", 1)
		os.RemoveAll(filepath.Join(env.Work, id))
	}
}
