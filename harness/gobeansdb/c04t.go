//go:build verif
// +build verif

package gobeansdb

import (
	"fmt"
	"path/filepath"
	"time"

	"github.com/douban/gobeansdb/cmem"
	"github.com/douban/gobeansdb/store"
	"verif/lincheck"
	"verif/ref"
	"verif/vfc"
)

// Deterministic orderings over {append, tree update, flush write, buffer
// detach, buffer free, read-by-position}, built with park/release at the hook
// points. Each ordering is a small script; the recorded history goes through
// the same checkers as the random-schedule histories.
var vfTargetedKinds = []string{
	"reader-holds-position-while-flush-frees",         // reader parked after the tree lookup; flush writes, detaches, frees; reader resumes
	"reader-copies-while-flusher-before-detach",       // flusher parked between write and detach; reader copies from the buffer
	"reader-after-detach-before-free",                 // flusher parked between detach and free; reader must go to the file
	"writer-between-append-and-tree-while-flush",      // writer parked after append; forced flush frees its payload; writer then updates the tree
	"rotation-with-parked-flush-readers-on-old-chunk", // post-rotation flush parked; readers read the rotated chunk from its buffer
	"overwrite-while-reader-holds-old-position",
	"delete-while-reader-holds-position",
	"two-writers-same-key-interleaved-append-tree",
	"flush-frees-record-between-publish-and-accounting", // appender parked right after its record became visible in the write buffer; a flush already under way writes and frees it
}

func vfC04Targeted(env *vfc.Env, id, kind string, r *ref.Rand) {
	res := env.Res
	cfg := store.VFConfig{NumBucket: 1, TreeHeight: 3, BodyMax: 1 << 20, DataFileMax: 4000 << 20, SplitCap: 1 << 20, IndexInterval: 512, BodyInC: int64(r.Pick(0, 4096))}
	if kind == "rotation-with-parked-flush-readers-on-old-chunk" {
		cfg.DataFileMax = 4 * 256
	}
	info := map[string]interface{}{"kind": kind, "cfg": cfg}
	res.Begin(id, info)
	sut, err := vfOpenSUT(cfg, filepath.Join(env.Work, id), res)
	if err != nil {
		res.Violate(id, "c04:open-error", err.Error(), info)
		return
	}
	sut.quiet = false
	hooks := vfc.InstallHooks()
	mem := newMemReg()
	hooks.SetMem(mem.hook)
	sched := vfc.NewSched(r.Uint64(), 0)
	hooks.SetPoint(sched.Hook)
	hs := sut.hs
	key := "tk-" + kind[:6]
	key2 := "tk2-" + kind[:6]
	size := r.Pick(100, 5000)
	main := &vfClient{hs: hs, id: 0}
	var hist []lincheck.Op
	done := make(chan *vfClient, 8)
	spawn := func(cid int, role string, f func(c *vfClient)) {
		go func() {
			sched.SetRole(role)
			c := &vfClient{hs: hs, id: cid}
			f(c)
			done <- c
		}()
	}
	wait := func(n int) {
		for i := 0; i < n; i++ {
			c := <-done
			hist = append(hist, c.ops...)
		}
	}
	inconc := func(what string) {
		res.Inconc("targeted ordering " + kind + ": " + what)
		sched.ReleaseAll()
	}
	sched.SetRole("main")
	flush := func() { store.VFFlush(hs, true) }
	switch kind {
	case "reader-holds-position-while-flush-frees":
		main.set(key, "random", size)
		t := sched.AddTrap("reader", "reader", "bucket.get.afterTree", 1)
		spawn(1, "reader", func(c *vfClient) { c.get(key, false, false) })
		if !t.WaitParked(vfWatchdog) {
			inconc("reader never reached the trap")
			break
		}
		flush() // writes, detaches and frees the buffered record
		t.Release()
		wait(1)
	case "reader-copies-while-flusher-before-detach":
		main.set(key, "random", size)
		t := sched.AddTrap("flusher", "flusher", "chunk.flush.beforeDetach", 1)
		spawn(1, "flusher", func(c *vfClient) { flush() })
		if !t.WaitParked(vfWatchdog) {
			inconc("flusher never reached the trap")
			break
		}
		spawn(2, "reader", func(c *vfClient) { c.get(key, false, false) })
		wait(1)
		t.Release()
		wait(1)
	case "reader-after-detach-before-free":
		main.set(key, "random", size)
		t := sched.AddTrap("flusher", "flusher", "chunk.flush.beforeFree", 1)
		spawn(1, "flusher", func(c *vfClient) { flush() })
		if !t.WaitParked(vfWatchdog) {
			inconc("flusher never reached the trap")
			break
		}
		spawn(2, "reader", func(c *vfClient) { c.get(key, false, false); c.get(key, true, false) })
		wait(1)
		t.Release()
		wait(1)
	case "writer-between-append-and-tree-while-flush":
		main.set(key, "random", 50)
		t := sched.AddTrap("writer", "writer", "bucket.set.afterAppend", 1)
		spawn(1, "writer", func(c *vfClient) { c.set(key, "random", size) })
		if !t.WaitParked(vfWatchdog) {
			inconc("writer never reached the trap")
			break
		}
		spawn(2, "flusher", func(c *vfClient) { flush(); c.get(key, false, false) })
		wait(1)
		t.Release()
		wait(1)
	case "rotation-with-parked-flush-readers-on-old-chunk":
		t := sched.AddTrap("bgflush", "bg", "data.flush.enter", 1)
		for i := 0; i < 6; i++ { // 4-record files: this rotates
			main.set(fmt.Sprintf("%s-%d", key, i), "random", 100)
		}
		if !t.WaitParked(vfWatchdog) {
			inconc("no post-rotation flush goroutine was spawned")
			break
		}
		spawn(1, "reader", func(c *vfClient) {
			for i := 0; i < 6; i++ {
				c.get(fmt.Sprintf("%s-%d", key, i), false, false)
			}
		})
		wait(1)
		t.Release()
		for i := 0; i < 6; i++ {
			main.get(fmt.Sprintf("%s-%d", key, i), false, false)
		}
	case "overwrite-while-reader-holds-old-position":
		main.set(key, "random", size)
		flush()
		t := sched.AddTrap("reader", "reader", "bucket.get.afterTree", 1)
		spawn(1, "reader", func(c *vfClient) { c.get(key, false, false) })
		if !t.WaitParked(vfWatchdog) {
			inconc("reader never reached the trap")
			break
		}
		main.set(key, "text", 300)
		flush()
		t.Release()
		wait(1)
	case "delete-while-reader-holds-position":
		main.set(key, "random", size)
		t := sched.AddTrap("reader", "reader", "bucket.get.afterTree", 1)
		spawn(1, "reader", func(c *vfClient) { c.get(key, false, false) })
		if !t.WaitParked(vfWatchdog) {
			inconc("reader never reached the trap")
			break
		}
		main.del(key)
		flush()
		t.Release()
		wait(1)
	case "two-writers-same-key-interleaved-append-tree":
		// the bucket write lock must serialise them: the second writer cannot pass
		// the first one parked between append and tree update
		t := sched.AddTrap("w1", "writer1", "bucket.set.afterAppend", 1)
		spawn(1, "writer1", func(c *vfClient) { c.set(key, "random", size) })
		if !t.WaitParked(vfWatchdog) {
			inconc("writer never reached the trap")
			break
		}
		spawn(2, "writer2", func(c *vfClient) { c.set(key, "text", 200); c.set(key2, "text", 200) })
		spawn(3, "reader", func(c *vfClient) { c.get(key, true, false) })
		wait(1) // the reader is not blocked by the write lock
		t.Release()
		wait(2)
	case "flush-frees-record-between-publish-and-accounting":
		// The flusher takes the store lock only briefly and then works on the
		// chunk alone; a record appended meanwhile is visible to it at once.
		main.set(key2, "random", 80) // something to flush, so that the flusher goes on
		tf := sched.AddTrap("flusher", "flusher", "data.flush.beforeWrite", 1)
		spawn(1, "flusher", func(c *vfClient) { flush() })
		if !tf.WaitParked(vfWatchdog) {
			inconc("flusher never reached the trap")
			break
		}
		ta := sched.AddTrap("appender", "appender", "data.append.afterPublish", 1)
		spawn(2, "appender", func(c *vfClient) { c.set(key, "random", size) })
		if !ta.WaitParked(vfWatchdog) {
			inconc("appender never reached the trap")
			break
		}
		tf.Release() // writes both records, detaches and frees them, then waits for the store lock
		freed := false
		for i := 0; i < 20000 && !freed; i++ {
			if cfg.BodyInC == 0 {
				n, _ := mem.liveCount()
				freed = n == 0
			} else {
				freed = store.VFBufferedRecords(hs, 0) == 0
			}
			if !freed {
				time.Sleep(time.Millisecond)
			}
		}
		if !freed {
			inconc("the flush did not free the published record while the appender was parked")
		}
		ta.Release()
		wait(2)
	}
	sched.ReleaseAll()
	hooks.SetPoint(nil)
	hooks.WaitQuiescent(vfWatchdog)
	// accounting at quiescence (as in the random-schedule histories)
	store.VFFlush(hs, true)
	hooks.WaitQuiescent(vfWatchdog)
	if !cmem.DBRL.IsZero() {
		res.Violate(id, "c04:accounting-not-zero", fmt.Sprintf("targeted ordering %s: after the ordering and a forced flush the buffer counters are not zero: get %+v set %+v flush %+v alloc %+v", kind, cmem.DBRL.GetData, cmem.DBRL.SetData, cmem.DBRL.FlushData, *cmem.DBRL.AllocRL), info)
	}
	hist = append(hist, main.ops...)
	fin := &vfClient{hs: hs, id: 99}
	keys := map[string]bool{}
	for _, o := range hist {
		keys[o.Key] = true
	}
	var klist []string
	for k := range keys {
		klist = append(klist, k)
		fin.get(k, false, true)
	}
	hist = append(hist, fin.ops...)
	vfJudge(res, id, "c04", info, klist, hist, false)
	if n, _ := mem.liveCount(); mem.unknown != 0 {
		res.Violate(id, "c04:c-blocks", fmt.Sprintf("%d frees of unknown blocks (%d live)", mem.unknown, n), info)
	}
	hooks.SetMem(nil)
	res.Seen("targeted/" + kind)
	res.Event("targeted_orderings", 1)
	sut.Destroy()
}
