//go:build verif
// +build verif

package gobeansdb

import (
	"bytes"
	"crypto/sha1"
	"fmt"
	"os"
	"path/filepath"
	"sort"

	"github.com/douban/gobeansdb/quicklz"
	"github.com/douban/gobeansdb/store"
	"verif/model"
	"verif/ref"
)

// vfLogicalValue returns the client-visible bytes of a scanned record. A
// server-compressed record is expanded with the *Go* QuickLZ implementation
// (the store itself only uses the C one).
func vfLogicalValue(rec *ref.Record) ([]byte, bool) {
	if rec.Flag&ref.FlagCompress == 0 {
		return rec.Value, true
	}
	out, err := quicklz.DecompressSafe(rec.Value)
	if err != nil {
		return nil, false
	}
	return out, true
}

// vfGCMonitor is the C18 oracle plus the on-disk part of C03; it runs after
// every completed pass of a history (no concurrent writes).
func vfGCMonitor(sut *vfSUT, run *model.Runner, colliding map[string]bool, violate func(sig, detail string), seen func(string), event func(string, int64)) {
	g := &sut.LastGC
	if !g.Ran {
		return
	}
	g.Ran = false
	home := store.VFBucketHome(sut.hs, g.Bucket)
	post := vfDataFiles(home)
	st := g.State
	// which files to inspect: the surviving files of [Begin,End] and the appended
	// part of an earlier destination
	type seg struct {
		chunk int
		from  int64
	}
	var segs []seg
	firstDst := -1
	for id := range post {
		if id < g.Begin {
			pre, ok := g.PreFiles[id]
			if ok && post[id].Size > pre.Size {
				if firstDst >= 0 {
					violate("c18:two-earlier-files-touched", fmt.Sprintf("pass over [%d,%d] grew two files below the range: %d and %d", g.Begin, g.End, firstDst, id))
				}
				firstDst = id
				segs = append(segs, seg{id, pre.Size})
				b, _ := os.ReadFile(filepath.Join(home, fmt.Sprintf("%03d.data", id)))
				if int64(len(b)) >= pre.Size && sha1.Sum(b[:pre.Size]) != pre.Sum {
					violate("c18:earlier-file-prefix-changed", fmt.Sprintf("file %03d.data (below the range, appended to by the pass) changed within its first %d bytes", id, pre.Size))
				}
			} else if ok && (post[id].Size != pre.Size || post[id].Sum != pre.Sum) {
				violate("c18:file-outside-range-changed", fmt.Sprintf("file %03d.data below the range [%d,%d] changed (size %d -> %d)", id, g.Begin, g.End, pre.Size, post[id].Size))
			}
		} else if id <= g.End {
			segs = append(segs, seg{id, 0})
		} else if pre, ok := g.PreFiles[id]; ok && (post[id].Size != pre.Size || post[id].Sum != pre.Sum) {
			violate("c18:file-outside-range-changed", fmt.Sprintf("file %03d.data above the range [%d,%d] changed (size %d -> %d)", id, g.Begin, g.End, pre.Size, post[id].Size))
		}
	}
	sort.Slice(segs, func(i, j int) bool { return segs[i].chunk < segs[j].chunk })
	occurrences := map[string]int{}
	nrec, ntomb, nretained := 0, 0, 0
	for _, sg := range segs {
		b, err := os.ReadFile(filepath.Join(home, fmt.Sprintf("%03d.data", sg.chunk)))
		if err != nil {
			continue
		}
		recs, torn := ref.ScanFile(b[sg.from:], uint32(sut.cfg.BodyMax))
		if torn {
			violate("c18:torn-file-after-gc", fmt.Sprintf("file %03d.data is not a sequence of whole records after the pass", sg.chunk))
		}
		for _, sr := range recs {
			key := string(sr.Rec.Key)
			if colliding[key] {
				continue
			}
			nrec++
			lw, known := run.M.LastWrite[key]
			where := fmt.Sprintf("%03d.data@%d", sg.chunk, int64(sr.Off)+sg.from)
			if !known {
				violate("c18:unknown-key-record", fmt.Sprintf("%s holds a record of key %q that the history never wrote", where, key))
				continue
			}
			if sr.Rec.Ver > 0 {
				val, ok := vfLogicalValue(sr.Rec)
				isCurrent := lw.Ver == sr.Rec.Ver && ok && bytes.Equal(val, lw.Value) && sr.Rec.Flag&^ref.FlagCompress == lw.Flag
				if !isCurrent {
					violate("c18:superseded-value-survived", fmt.Sprintf("%s still holds version %d of key %q (%d bytes) after GC of [%d,%d]; the key's last accepted write is %s", where, sr.Rec.Ver, key, len(sr.Rec.Value), g.Begin, g.End, vfDescr(lw)))
					continue
				}
				occurrences[key]++
				if occurrences[key] > 1 {
					violate("c18:current-record-duplicated", fmt.Sprintf("the current record of %q appears %d times in the collected range (last at %s)", key, occurrences[key], where))
				}
			} else {
				ntomb++
				if lw.Ver > 0 {
					violate("c18:tombstone-of-live-key-survived", fmt.Sprintf("%s holds a tombstone (version %d) of key %q whose last accepted write is %s", where, sr.Rec.Ver, key, vfDescr(lw)))
					continue
				}
				if sr.Rec.Ver == lw.Ver {
					occurrences[key]++
					continue // the newest tombstone
				}
				// an older tombstone: only the reservation rule allows it
				if g.PreTree[key] || g.Begin == 0 {
					violate("c18:old-tombstone-survived", fmt.Sprintf("%s holds an old tombstone (version %d) of key %q (last delete has version %d); tree entry before the pass: %v, pass began at file %d", where, sr.Rec.Ver, key, lw.Ver, g.PreTree[key], g.Begin))
					continue
				}
				nretained++
			}
		}
	}
	event("c18.records_inspected", int64(nrec))
	event("c18.tombstones_inspected", int64(ntomb))
	event("c18.tombstones_retained_by_reservation_rule", int64(nretained))
	event("c18.records_released", st.NumReleased)
	dstKind := "fresh-or-inplace"
	if firstDst >= 0 {
		dstKind = "earlier-file"
	} else if st.Dst == g.Begin {
		dstKind = "in-place"
	}
	seen(fmt.Sprintf("gc/files=%d/dst=%s/merge=%v/released=%v/retained=%v/begin0=%v", minI(g.End-g.Begin+1, 4), dstKind, g.Merge, st.NumReleased > 0, nretained > 0, g.Begin == 0))

	// C03, on-disk part: every live key's record is where the tree says
	for key, e := range run.M.M {
		if e.Ver <= 0 || colliding[key] {
			continue
		}
		_, _, chunk, off, found := store.VFTreeEntry(sut.hs, key)
		if !found {
			continue // reported by the read check
		}
		if store.VFBucketOf(key) != g.Bucket {
			continue
		}
		b, err := os.ReadFile(filepath.Join(home, fmt.Sprintf("%03d.data", chunk)))
		if err != nil || int(off) >= len(b) {
			continue // still in the write buffer
		}
		rec, _, derr := ref.DecodeAt(b, int(off), uint32(sut.cfg.BodyMax))
		if derr != nil || string(rec.Key) != key {
			violate("c03:tree-points-at-wrong-record", fmt.Sprintf("after GC the tree says %q lives at %03d.data@%d but the reference decoder finds %v (err %v)", key, chunk, off, rec, derr))
		}
	}

	// an identical second pass must release nothing and change no file
	for _, r := range store.VFLegalRanges(sut.hs, g.Bucket) {
		if r[0] == g.Begin && r[1] == g.End {
			mid := vfDataFiles(home)
			sut.waitBG("before second pass")
			st2 := store.VFGCDirect(sut.hs, g.Bucket, g.Begin, g.End, g.Merge)
			sut.waitBG("after second pass")
			after := vfDataFiles(home)
			event("c18.second_passes", 1)
			if st2.NumReleased != 0 || st2.SizeReleased != 0 {
				violate("c18:second-pass-released", fmt.Sprintf("an identical second pass over [%d,%d] released %d records / %d bytes", g.Begin, g.End, st2.NumReleased, st2.SizeReleased))
			}
			for id, a := range after {
				if m, ok := mid[id]; !ok || m != a {
					violate("c18:second-pass-changed-file", fmt.Sprintf("an identical second pass changed %03d.data (size %d -> %d)", id, mid[id].Size, a.Size))
				}
			}
			for id := range mid {
				if _, ok := after[id]; !ok {
					violate("c18:second-pass-changed-file", fmt.Sprintf("an identical second pass removed %03d.data", id))
				}
			}
			break
		}
	}
}

func vfDescr(e ref.Entry) string {
	if e.Ver < 0 {
		return fmt.Sprintf("a delete (version %d)", e.Ver)
	}
	return fmt.Sprintf("version %d, %d bytes, flag %#x", e.Ver, len(e.Value), e.Flag)
}

func minI(a, b int) int {
	if a < b {
		return a
	}
	return b
}
