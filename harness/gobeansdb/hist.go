//go:build verif
// +build verif

package gobeansdb

import (
	"fmt"
	"path/filepath"
	"strings"

	"github.com/douban/gobeansdb/store"
	"verif/model"
	"verif/ref"
	"verif/vfc"
)

// vfHistArgs configures one child of the model-equivalence family
// (C01/C02/C03/C13/C18 share the runner, they differ in what the histories
// contain and which extra monitors run).
type vfHistArgs struct {
	Cfg            store.VFConfig
	Histories      int
	NKeys          int
	NOps           int
	MaxVal         int
	BigPct         int
	MaintPct       int
	Restart        bool
	GC             bool
	Collide        int // number of same-hash groups to force (C13)
	InvalidKeyPct  int
	FullCheckEvery int
	Variants       string
	GCMonitor      bool
	Prop           string // the property this run decides ("c03", "c18", "c13")
	Damage         bool   // GC histories: before some passes one superseded record is corrupted on disk
	PosSweep       bool   // C02 thorough: reopen after EVERY prefix of a short history (n+1 runs of an n-op history)
}

// vfKeysForServed generates keys whose reference bucket is served by cfg.
func vfKeysForServed(r *ref.Rand, n int, cfg store.VFConfig) []string {
	served := map[int]bool{}
	for _, b := range cfg.Served {
		served[b] = true
	}
	var keys []string
	have := map[string]bool{}
	for len(keys) < n {
		for _, k := range model.GenKeys(r, n) {
			if have[k] {
				continue
			}
			if cfg.Served == nil || served[ref.BucketOf(ref.KeyHash([]byte(k)), cfg.NumBucket)] {
				have[k] = true
				keys = append(keys, k)
				if len(keys) == n {
					break
				}
			}
		}
	}
	return keys
}

type vfHistCase struct {
	Cfg    store.VFConfig `json:"cfg"`
	Keys   []string       `json:"keys"`
	Ops    []model.Op     `json:"ops"`
	Groups [][]string     `json:"groups,omitempty"`
}

func vfHistories(env *vfc.Env, prefix string, extra func(c *vfHistCase, sut *vfSUT, run *model.Runner)) {
	var a vfHistArgs
	env.ParseArgs(&a)
	vfQuiet()
	res := env.Res
	rnd := ref.NewRand(env.Seed)
	if a.Cfg.BodyMax > 0 && int64(a.MaxVal) > a.Cfg.BodyMax {
		// a value above body_max never reaches the store: the protocol layer refuses it
		a.MaxVal = int(a.Cfg.BodyMax)
	}
	for h := 0; h < a.Histories; h++ {
		id := fmt.Sprintf("h%d", h)
		r := rnd.Split(uint64(h))
		if !env.Want(id) {
			continue
		}
		c := &vfHistCase{Cfg: a.Cfg}
		nk := a.NKeys
		if nk == 0 {
			nk = r.Range(4, 24)
		}
		c.Keys = vfKeysForServed(r, nk, a.Cfg)
		colliding := map[string]bool{}
		if a.Collide > 0 {
			c.Groups = vfMakeGroups(r, c.Keys, a.Collide)
			for _, g := range c.Groups {
				for _, k := range g {
					colliding[k] = true
				}
			}
		}
		o := model.GenOpts{NKeys: nk, NOps: a.NOps, MaxVal: a.MaxVal, BigPct: a.BigPct, Restart: a.Restart, GC: a.GC, Maint: true, MaintPct: a.MaintPct, InvalidKeyPct: a.InvalidKeyPct, Variants: a.Variants}
		if a.Collide > 0 {
			o.NoRev = false
		}
		if a.GC && a.Restart && h%3 == 2 {
			c.Ops = model.GenGCScenario(r, c.Keys, o)
		} else {
			c.Ops = model.GenHistory(r, c.Keys, o)
		}
		if a.Damage {
			// bit rot in garbage: before some GC passes a record that is no key's current record
			// is corrupted on disk (separate random stream: the history itself is unchanged)
			rd := r.Split(777)
			var ops2 []model.Op
			for _, op := range c.Ops {
				if op.K == "gc" && rd.Intn(3) == 0 {
					ops2 = append(ops2, model.Op{K: "flush"}, model.Op{K: "damage", Sel: rd.Uint64() % 1000000})
				}
				ops2 = append(ops2, op)
			}
			c.Ops = ops2
		}
		if a.GC && a.Collide == 0 {
			// the generator flushes before every pass; half of the passes now start with the
			// newest acknowledged writes still in the head file's write buffer (separate random
			// stream: the history itself is unchanged)
			rd := r.Split(778)
			var ops2 []model.Op
			for i, op := range c.Ops {
				if op.K == "flush" && i+1 < len(c.Ops) && c.Ops[i+1].K == "gc" && rd.Bool() {
					continue
				}
				ops2 = append(ops2, op)
			}
			c.Ops = ops2
		}
		if a.Collide > 0 {
			// colliding keys are written with revision 0 only (the shared tree slot has one version counter)
			for i := range c.Ops {
				if colliding[c.Ops[i].Key] {
					c.Ops[i].Rev = 0
				}
			}
		}
		if a.PosSweep {
			// the same history cut at every position, each prefix followed by a
			// shutdown + reopen once per index-file subset
			full := c.Ops
			for pos := 0; pos <= len(full); pos++ {
				pid := fmt.Sprintf("%s@%d", id, pos)
				pc := &vfHistCase{Cfg: a.Cfg, Keys: c.Keys}
				pc.Ops = append(append([]model.Op{}, full[:pos]...), model.Op{K: "restart", Rm: "", Variants: a.Variants})
				res.Begin(pid, pc)
				sut, err := vfOpenSUT(a.Cfg, filepath.Join(env.Work, id), res)
				if err != nil {
					res.Violate(pid, prefix+":open-error", err.Error(), pc)
					break
				}
				run := model.NewRunner(sut, ref.NewRefMap(a.Cfg.CheckVHash), res, pid, model.Options{Prefix: prefix, Replay: pc})
				ok := run.Run(pc.Ops)
				sut.Destroy()
				res.Event("position_sweep_runs", 1)
				if !ok {
					break
				}
			}
			res.Seen(fmt.Sprintf("position-sweep/ops=%d", len(full)))
			res.Event("histories", 1)
			continue
		}
		res.Begin(id, c)
		vfInstallGroups(c.Groups, a.Cfg)
		sut, err := vfOpenSUT(a.Cfg, filepath.Join(env.Work, id), res)
		if err != nil {
			res.Violate(id, prefix+":open-error", "cannot open a fresh store: "+err.Error(), c)
			continue
		}
		m := ref.NewRefMap(a.Cfg.CheckVHash)
		run := model.NewRunner(sut, m, res, id, model.Options{Prefix: prefix, Colliding: colliding, Groups: c.Groups, Replay: c, FullCheckEvery: a.FullCheckEvery,
			Route: func(key string) string { return store.VFCollisionRoute(sut.hs, key) }})
		sut.keysFn = func() []string {
			ks := make([]string, 0, len(m.LastWrite))
			for k := range m.LastWrite {
				ks = append(ks, k)
			}
			return ks
		}
		if a.GCMonitor {
			run.Opt.AfterOp = func(i int, op model.Op, rr *model.Runner) {
				if op.K != "gc" {
					return
				}
				vfGCMonitor(sut, rr, colliding, func(sig, detail string) {
					rr.Tracef("gc monitor: %s", sig)
					if a.Prop != "" && !strings.HasPrefix(sig, a.Prop+":") {
						res.Event("other_property."+sig, 1) // reported by that property's own check
						return
					}
					rr.Fail(sig, detail)
				}, res.Seen, res.Event)
			}
		}
		if extra != nil {
			extra(c, sut, run)
		}
		ok := run.Run(c.Ops)
		sut.Destroy()
		store.VFSetHashFunc(nil)
		if ok && h < 2 {
			n := len(c.Ops)
			if n > 12 {
				n = 12
			}
			res.Sample(map[string]interface{}{"case": id, "cfg": c.Cfg, "keys": len(c.Keys), "ops": len(c.Ops), "first_ops": c.Ops[:n]})
		}
		res.Event("histories", 1)
	}
	for k, v := range vfc.InstallHooks().Counts() {
		res.Event("hook."+k, v)
	}
}

// vfMakeGroups picks n disjoint groups of 2..4 keys that will share one hash.
func vfMakeGroups(r *ref.Rand, keys []string, n int) (groups [][]string) {
	perm := r.Perm(len(keys))
	i := 0
	for g := 0; g < n; g++ {
		sz := r.Range(2, 4)
		if i+sz > len(perm) {
			break
		}
		var grp []string
		for j := 0; j < sz; j++ {
			grp = append(grp, keys[perm[i+j]])
		}
		i += sz
		groups = append(groups, grp)
	}
	return
}

// vfInstallGroups overrides the key hash so that the members of each group
// share the (real) hash of the group's first key; other keys keep their hash.
func vfInstallGroups(groups [][]string, cfg store.VFConfig) {
	if len(groups) == 0 {
		store.VFSetHashFunc(nil)
		return
	}
	forced := map[string]uint64{}
	for _, g := range groups {
		h := ref.KeyHash([]byte(g[0]))
		for _, k := range g {
			forced[k] = h
		}
	}
	store.VFSetHashFunc(func(key []byte) uint64 {
		if h, ok := forced[string(key)]; ok {
			return h
		}
		return ref.KeyHash(key)
	})
}
