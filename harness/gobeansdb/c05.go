//go:build verif
// +build verif

package gobeansdb

import (
	"fmt"
	"path/filepath"
	"strings"
	"sync"
	"sync/atomic"
	"time"

	"github.com/douban/gobeansdb/store"
	"verif/lincheck"
	"verif/ref"
	"verif/vfc"
)

type vfC05Case struct {
	Cfg     store.VFConfig `json:"cfg"`
	Keys    []string       `json:"keys"`
	Kind    string         `json:"kind"`
	Clients int            `json:"clients"`
	Ops     int            `json:"ops_per_client"`
	Merge   bool           `json:"merge"`
	Range   [2]int         `json:"range"`
	Cancel  int            `json:"cancel_at_hit,omitempty"`
	CancelP string         `json:"cancel_at_point,omitempty"`
	Step    string         `json:"gc_step,omitempty"`
	Action  string         `json:"client_action,omitempty"`
	Seed    uint64         `json:"seed"`
	Dumper  bool           `json:"dumper"`
}

func vfC05Config(r *ref.Rand) store.VFConfig {
	cfg := store.VFConfig{NumBucket: 1, TreeHeight: r.Range(2, 3), IndexInterval: 512, BodyInC: int64(r.Pick(0, 4096)), SplitCap: int64(r.Pick(5, 64, 1<<20))}
	switch r.Intn(3) {
	case 0:
		cfg.DataFileMax, cfg.BodyMax = int64(r.Pick(8, 12))*256, 1<<20 // never an earlier destination
	case 1:
		cfg.DataFileMax, cfg.BodyMax = int64(r.Pick(16, 24))*256, 1024 // earlier non-full files are destinations
	default:
		cfg.DataFileMax, cfg.BodyMax = int64(r.Pick(10, 16))*256, 1024
	}
	return cfg
}

// vfC05MaxVal: a record is at most half a data file and a value at most body_max.
func vfC05MaxVal(cfg store.VFConfig) int {
	m := int(cfg.DataFileMax/2) - 24 - 250
	if int64(m) > cfg.BodyMax {
		m = int(cfg.BodyMax)
	}
	return m
}

// vfC05Preload spreads several versions of every key over a few small files.
func vfC05Preload(sut *vfSUT, keys []string, r *ref.Rand, maxVal int) *vfClient {
	cl := &vfClient{hs: sut.hs, id: 50}
	rounds := r.Range(2, 5)
	// some keys go cold early, so that current records live in every file and not only in the
	// files of the last round (a pass that loses an early file must lose acknowledged data)
	cold := map[string]int{}
	for i, k := range keys {
		if i == 0 || r.Intn(3) == 0 {
			cold[k] = r.Intn(rounds)
		}
	}
	for i := 0; i < rounds; i++ {
		for _, k := range keys {
			if last, ok := cold[k]; ok && i > last {
				continue
			}
			switch r.Intn(6) {
			case 0:
				cl.del(k)
			default:
				cl.set(k, []string{"random", "text"}[r.Intn(2)], r.Range(60, maxVal))
			}
		}
		store.VFFlush(sut.hs, true)
	}
	// make sure every key is live at least in some histories, and push the head forward
	for _, k := range keys {
		if _, ok := cold[k]; !ok && r.Bool() {
			cl.set(k, "random", r.Range(60, maxVal))
		}
	}
	store.VFFlush(sut.hs, true)
	sut.waitBG("c05 preload")
	return cl
}

func vfC05(env *vfc.Env) {
	var a vfC04Args
	env.ParseArgs(&a)
	vfQuiet()
	rnd := ref.NewRand(env.Seed)
	for h := 0; h < a.Histories; h++ {
		id := fmt.Sprintf("s%d", h)
		if env.Want(id) {
			vfC05Stress(env, id, rnd.Split(uint64(h)), &a)
		}
	}
	if a.Targeted {
		i := 0
		for _, step := range []string{"gc.afterNewestCheck", "gc.afterCopy", "gc.updatepos.mid", "gc.afterRepoint", "gc.beforeClear", "gc.fileBegin"} {
			for _, action := range []string{"set", "del", "get", "cancel"} {
				for _, merge := range []bool{false, true} {
					id := fmt.Sprintf("p%d-%s-%s-merge=%v", i, strings.TrimPrefix(step, "gc."), action, merge)
					i++
					if env.Want(id) {
						vfC05Placement(env, id, rnd.Split(uint64(7000+i)), step, action, merge)
					}
				}
			}
		}
	}
	if a.Targeted {
		// a client writes a key with the SAME 64-bit hash as the record GC is relocating
		i := 0
		for _, step := range []string{"gc.afterNewestCheck", "gc.afterCopy", "gc.updatepos.mid", "gc.afterRepoint"} {
			for _, merge := range []bool{false, true} {
				id := fmt.Sprintf("x%d-%s-sibling-set-merge=%v", i, strings.TrimPrefix(step, "gc."), merge)
				i++
				if env.Want(id) {
					vfC05Sibling(env, id, rnd.Split(uint64(7700+i)), step, merge)
				}
			}
		}
	}
	if a.Targeted {
		for i, merge := range []bool{false, true} {
			id := fmt.Sprintf("r%d-gc-requested-while-post-rotation-flush-pending-merge=%v", i, merge)
			if env.Want(id) {
				vfC05RotationPending(env, id, rnd.Split(uint64(7800+i)), merge)
			}
		}
	}
	if a.Targeted && !a.NoDumper {
		for i, merge := range []bool{false, true} {
			id := fmt.Sprintf("d%d-dumper-holds-chunk-while-gc-clears-it-merge=%v", i, merge)
			if env.Want(id) {
				vfC05DumperVsClear(env, id, rnd.Split(uint64(7900+i)), merge)
			}
		}
	}
	for k, v := range vfc.InstallHooks().Counts() {
		env.Res.Event("hook."+k, v)
	}
}

// vfC05DumperVsClear: the periodic hint dumper is parked inside trydump of a
// chunk (chunk locked, about to dump its split) when a GC pass starts on a range
// beginning with that chunk (GC replaces the hint chunk of every source file).
// Either GC waits for the dumper or the dumper must cope with the replacement;
// the process must survive and every key must hold its last acknowledged write.
func vfC05DumperVsClear(env *vfc.Env, id string, r *ref.Rand, merge bool) {
	res := env.Res
	cfg := vfC05Config(r)
	c := &vfC05Case{Cfg: cfg, Kind: "dumper-vs-clearchunk", Merge: merge, Seed: r.Uint64()}
	c.Keys = vfTagSafeKeys(r, r.Range(3, 6), cfg)
	res.Begin(id, c)
	sut, err := vfOpenSUT(cfg, filepath.Join(env.Work, id), res)
	if err != nil {
		res.Violate(id, "c05:open-error", err.Error(), c)
		return
	}
	defer sut.Destroy()
	hooks := vfc.InstallHooks()
	mem := newMemReg()
	hooks.SetMem(mem.hook)
	defer hooks.SetMem(nil)
	pre := vfC05Preload(sut, c.Keys, r, vfC05MaxVal(cfg))
	ranges := store.VFLegalRanges(sut.hs, 0)
	if len(ranges) == 0 {
		res.Event("placement_no_target", 1)
		return
	}
	rg := ranges[r.Intn(len(ranges))]
	for _, cand := range ranges { // a range not starting at file 0 can move records into an earlier file: GC then never needs the lock the dumper holds
		if cand[0] > 0 {
			rg = cand
			break
		}
	}
	c.Range = [2]int{rg[0], rg[1]}
	sut.quiet = false
	store.VFSetMergeChan(true) // as with a running HintDumper: writers signal instead of dumping themselves
	defer store.VFSetMergeChan(false)
	sched := vfc.NewSched(c.Seed, 0)
	hooks.SetPoint(sched.Hook)
	// the dumper visits the chunks in order, one trydump each: the (first source + 1)-th hit
	td := sched.AddTrap("dumper", "dumper", "hint.trydump.locked", rg[0]+1)
	dumpDone := make(chan struct{})
	go func() {
		sched.SetRole("dumper")
		store.VFDumpHints(sut.hs)
		close(dumpDone)
	}()
	sched.SetRole("client")
	reached := false
	select {
	case <-dumpDone:
	default:
		reached = td.WaitParked(vfWatchdog)
	}
	tg := sched.AddTrap("gc", "gc", "gc.afterNewestCheck", 1) // first hook after the source's hint chunk was replaced
	gcDone := make(chan struct{})
	go func() {
		sched.SetRole("gc")
		store.VFGCDirect(sut.hs, 0, rg[0], rg[1], merge)
		close(gcDone)
	}()
	order := "gc-waited-for-dumper"
	if reached && tg.WaitParked(300*time.Millisecond) {
		order = "gc-replaced-chunk-under-dumper" // only a hint for the evidence: the verdict is the oracle below
	}
	td.Release()
	<-dumpDone
	tg.Release()
	<-gcDone
	cl := &vfClient{hs: sut.hs, id: 1}
	cl.get(c.Keys[0], false, false)
	cl.set(c.Keys[0], "text", 100)
	sched.ReleaseAll()
	res.Seen(fmt.Sprintf("dumper-vs-clearchunk/reached=%v/%s/merge=%v", reached, order, merge))
	res.Event("dumper_vs_clearchunk."+order, 1)
	all := append(append([]lincheck.Op{}, pre.ops...), cl.ops...)
	vfC05Finish(res, id, c, sut, all, r)
	res.Event("placement_cases", 1)
}

// vfC05Finish: final read-back, then restart with an index subset removed and a
// second read-back against the last acknowledged write per key.
func vfC05Finish(res *vfc.Result, id string, c *vfC05Case, sut *vfSUT, all []lincheck.Op, r *ref.Rand) {
	hooks := vfc.InstallHooks()
	hooks.SetPoint(nil)
	hooks.WaitQuiescent(vfWatchdog)
	fin := &vfClient{hs: sut.hs, id: 99}
	for _, k := range c.Keys {
		fin.get(k, false, true)
		fin.get(k, true, true)
	}
	all = append(all, fin.ops...)
	if vfJudge(res, id, "c05", c, c.Keys, all, true) {
		return
	}
	// expected final state per key = the accepted write with the highest version
	type last struct {
		ver int32
		id  string
	}
	want := map[string]last{}
	for _, o := range all {
		if (o.Kind == "set" || o.Kind == "del") && o.Accepted {
			av := o.Ver
			if av < 0 {
				av = -av
			}
			cur := want[o.Key].ver
			if cur < 0 {
				cur = -cur
			}
			if av > cur {
				want[o.Key] = last{o.Ver, o.ID}
			}
		}
	}
	rm := []string{"", "all", "hash", "s"}[r.Intn(4)]
	sut.quiet = true
	if _, err := sut.Restart(rm); err != nil {
		res.Violate(id, "c05:restart-error", fmt.Sprintf("reopen after GC beside traffic failed (removed %q): %v", rm, err), c)
		return
	}
	after := &vfClient{hs: sut.hs, id: 98}
	for _, k := range c.Keys {
		op := after.get(k, false, true)
		w := want[k]
		res.Eval(1)
		switch {
		case op.Err != "":
			res.Violate(id, "c05:after-restart:get-error", fmt.Sprintf("key %q after restart (removed %q): %s; last acknowledged write: version %d value %s", k, rm, op.Err, w.ver, w.id), c)
		case w.ver > 0 && (op.Ver != w.ver || op.GotID != w.id || !op.ValueOK):
			res.Violate(id, "c05:after-restart:lost-write", fmt.Sprintf("key %q after restart (removed %q) reads version %d value %q (bytes ok=%v); the last acknowledged write is version %d value %s", k, rm, op.Ver, op.GotID, op.ValueOK, w.ver, w.id), map[string]interface{}{"case": c, "history": all})
		case w.ver <= 0 && op.Ver > 0:
			res.Violate(id, "c05:after-restart:resurrected", fmt.Sprintf("key %q after restart (removed %q) reads version %d value %q although its last acknowledged write is a delete (version %d)", k, rm, op.Ver, op.GotID, w.ver), map[string]interface{}{"case": c, "history": all})
		}
	}
	res.Event("restart_readbacks", 1)
}

func vfC05Stress(env *vfc.Env, id string, r *ref.Rand, a *vfC04Args) {
	res := env.Res
	cfg := vfC05Config(r)
	c := &vfC05Case{Cfg: cfg, Kind: "stress", Clients: r.Range(2, 8), Ops: r.Range(10, 40), Merge: r.Bool(), Seed: r.Uint64(), Dumper: r.Intn(3) == 0 && !a.NoDumper}
	c.Keys = vfTagSafeKeys(r, r.Range(3, 8), cfg)
	maxVal := vfC05MaxVal(cfg)
	res.Begin(id, c)
	sut, err := vfOpenSUT(cfg, filepath.Join(env.Work, id), res)
	if err != nil {
		res.Violate(id, "c05:open-error", err.Error(), c)
		return
	}
	defer sut.Destroy()
	hooks := vfc.InstallHooks()
	mem := newMemReg()
	hooks.SetMem(mem.hook)
	defer hooks.SetMem(nil)
	pre := vfC05Preload(sut, c.Keys, r, maxVal)
	ranges := store.VFLegalRanges(sut.hs, 0)
	if len(ranges) == 0 {
		res.Event("no_legal_range", 1)
		return
	}
	rg := ranges[r.Intn(len(ranges))]
	c.Range = [2]int{rg[0], rg[1]}
	sut.quiet = false
	sched := vfc.NewSched(c.Seed, a.Level)
	hooks.SetPoint(sched.Hook)
	cancelAt := 0
	var cancelTrap *vfc.Trap
	if r.Intn(4) == 0 {
		// the request arrives while the pass is at a file boundary (also before the first file)
		// or at one of its per-record steps
		point := []string{"gc.fileBegin", "gc.fileBegin", "gc.afterNewestCheck", "gc.afterCopy", "gc.afterRepoint", "gc.beforeClear"}[r.Intn(6)]
		cancelAt = r.Range(1, 3)
		if point != "gc.fileBegin" && point != "gc.beforeClear" {
			cancelAt = r.Range(1, 8)
		}
		c.Cancel, c.CancelP = cancelAt, point
		cancelTrap = sched.AddTrap("cancel", "gc", point, cancelAt)
	}
	gcDone := make(chan struct{})
	go func() {
		sched.SetRole("gc")
		store.VFGCDirect(sut.hs, 0, rg[0], rg[1], c.Merge)
		close(gcDone)
	}()
	if cancelTrap != nil {
		go func() {
			if cancelTrap.WaitParked(vfWatchdog) {
				sut.hs.CancelGC(0)
				res.Event("gc_cancelled", 1)
				res.Event("gc_cancelled.at."+c.CancelP, 1)
				res.Seen(fmt.Sprintf("gc-cancel/%s/hit=%d/merge=%v", c.CancelP, minI(c.Cancel, 3), c.Merge))
			}
			cancelTrap.Release()
		}()
	}
	cc := &vfC04Case{Cfg: cfg, Keys: c.Keys, Clients: c.Clients, Ops: c.Ops, MaxVal: maxVal}
	all := vfRunClientsOpt(sut, sched, cc, r, c.Dumper)
	<-gcDone
	sched.ReleaseAll()
	all = append(all, pre.ops...)
	vfC05Finish(res, id, c, sut, all, r)
	sig, ev := sched.Signature()
	res.Seen(fmt.Sprintf("gc-schedule/%016x", sig))
	res.Event("hook_events", ev)
	res.Event("ops", int64(len(all)))
	res.Event("stress_histories", 1)
	if len(res.Samples) < 2 {
		res.Sample(map[string]interface{}{"case": id, "kind": "stress", "range": c.Range, "merge": c.Merge, "clients": c.Clients, "ops": len(all)})
	}
}

// vfC05Placement puts one client operation on key K at one of GC's per-record
// steps for K (the GC goroutine is parked there), then lets the pass finish.
func vfC05Placement(env *vfc.Env, id string, r *ref.Rand, step, action string, merge bool) {
	res := env.Res
	cfg := vfC05Config(r)
	c := &vfC05Case{Cfg: cfg, Kind: "placement", Merge: merge, Step: step, Action: action, Seed: r.Uint64()}
	c.Keys = vfTagSafeKeys(r, r.Range(3, 6), cfg)
	maxVal := vfC05MaxVal(cfg)
	res.Begin(id, c)
	sut, err := vfOpenSUT(cfg, filepath.Join(env.Work, id), res)
	if err != nil {
		res.Violate(id, "c05:open-error", err.Error(), c)
		return
	}
	defer sut.Destroy()
	hooks := vfc.InstallHooks()
	mem := newMemReg()
	hooks.SetMem(mem.hook)
	defer hooks.SetMem(nil)
	pre := vfC05Preload(sut, c.Keys, r, maxVal)
	// the key whose current record GC will relocate: one whose tree position lies in the range
	ranges := store.VFLegalRanges(sut.hs, 0)
	var target string
	var rg [4]int
	for _, cand := range ranges {
		for _, k := range c.Keys {
			ver, _, chunk, _, found := store.VFTreeEntry(sut.hs, k)
			if found && ver > 0 && chunk >= cand[0] && chunk <= cand[1] {
				target, rg = k, cand
			}
		}
	}
	if target == "" {
		res.Event("placement_no_target", 1)
		return
	}
	c.Range = [2]int{rg[0], rg[1]}
	sut.quiet = false
	sched := vfc.NewSched(c.Seed, 0)
	hooks.SetPoint(sched.Hook)
	var trap *vfc.Trap
	switch step {
	case "gc.beforeClear", "gc.fileBegin":
		trap = sched.AddTrap("gc", "gc", step, 1)
	default:
		trap = sched.AddTrapStr("gc", "gc", step, target, 1)
	}
	gcDone := make(chan struct{})
	go func() {
		sched.SetRole("gc")
		store.VFGCDirect(sut.hs, 0, rg[0], rg[1], merge)
		close(gcDone)
	}()
	cl := &vfClient{hs: sut.hs, id: 1}
	sched.SetRole("client")
	parked := make(chan bool, 1)
	go func() { parked <- trap.WaitParked(vfWatchdog) }()
	select {
	case ok := <-parked:
		if ok {
			switch action {
			case "set":
				cl.set(target, "random", r.Range(60, maxVal))
			case "del":
				cl.del(target)
			case "cancel":
				sut.hs.CancelGC(0)
				res.Event("gc_cancelled", 1)
				res.Event("gc_cancelled.at."+step, 1)
			default:
				cl.get(target, false, false)
			}
			res.Seen(fmt.Sprintf("placement/%s/%s/merge=%v", step, action, merge))
			res.Event("placements_reached", 1)
		}
	case <-gcDone:
		res.Event("placement_step_not_reached", 1) // the pass had no such step for the key (e.g. record not newest)
	}
	trap.Release()
	<-gcDone
	// a little more traffic after the pass
	cl.get(target, false, false)
	cl.set(c.Keys[0], "text", 100)
	sched.ReleaseAll()
	all := append(append([]lincheck.Op{}, pre.ops...), cl.ops...)
	vfC05Finish(res, id, c, sut, all, r)
	res.Event("placement_cases", 1)
}

// vfC05Sibling: while GC is parked at one of its per-record steps for key A, a client
// sets a key S that has the same 64-bit key hash as A (the tree entry of that hash is
// shared). Neither may lose its value: after the pass and after a restart A reads its
// last acknowledged value and S reads its own. Versions are not compared (colliding keys
// share one version counter, C13).
func vfC05Sibling(env *vfc.Env, id string, r *ref.Rand, step string, merge bool) {
	res := env.Res
	cfg := vfC05Config(r)
	c := &vfC05Case{Cfg: cfg, Kind: "sibling-placement", Merge: merge, Step: step, Action: "sibling-set", Seed: r.Uint64()}
	c.Keys = vfTagSafeKeys(r, r.Range(3, 6), cfg)
	maxVal := vfC05MaxVal(cfg)
	res.Begin(id, c)
	sut, err := vfOpenSUT(cfg, filepath.Join(env.Work, id), res)
	if err != nil {
		res.Violate(id, "c05:open-error", err.Error(), c)
		return
	}
	defer sut.Destroy()
	defer store.VFSetHashFunc(nil)
	hooks := vfc.InstallHooks()
	pre := vfC05Preload(sut, c.Keys, r, maxVal)
	ranges := store.VFLegalRanges(sut.hs, 0)
	var target string
	var rg [4]int
	for _, cand := range ranges {
		for _, k := range c.Keys {
			ver, _, chunk, _, found := store.VFTreeEntry(sut.hs, k)
			if found && ver > 0 && chunk >= cand[0] && chunk <= cand[1] {
				target, rg = k, cand
			}
		}
	}
	if target == "" {
		res.Event("placement_no_target", 1)
		return
	}
	sib := target + "~s"
	th := ref.KeyHash([]byte(target))
	store.VFSetHashFunc(func(key []byte) uint64 {
		if string(key) == sib {
			return th
		}
		return ref.KeyHash(key)
	})
	c.Range = [2]int{rg[0], rg[1]}
	c.Keys = append(c.Keys, sib)
	// the last acknowledged value of the target
	wantID := ""
	for _, o := range pre.ops {
		if o.Key == target && o.Accepted {
			wantID = ""
			if o.Kind == "set" {
				wantID = o.ID
			}
		}
	}
	sut.quiet = false
	sched := vfc.NewSched(c.Seed, 0)
	hooks.SetPoint(sched.Hook)
	trap := sched.AddTrapStr("gc", "gc", step, target, 1)
	gcDone := make(chan struct{})
	go func() {
		sched.SetRole("gc")
		store.VFGCDirect(sut.hs, 0, rg[0], rg[1], merge)
		close(gcDone)
	}()
	cl := &vfClient{hs: sut.hs, id: 1}
	sched.SetRole("client")
	parked := make(chan bool, 1)
	go func() { parked <- trap.WaitParked(vfWatchdog) }()
	reached := false
	select {
	case ok := <-parked:
		if ok {
			reached = true
			cl.set(sib, "random", r.Range(60, maxVal))
		}
	case <-gcDone:
	}
	trap.Release()
	<-gcDone
	sched.ReleaseAll()
	hooks.SetPoint(nil)
	hooks.WaitQuiescent(vfWatchdog)
	if !reached {
		res.Event("placement_step_not_reached", 1)
		return
	}
	res.Seen(fmt.Sprintf("placement/%s/sibling-set/merge=%v", step, merge))
	res.Event("placements_reached", 1)
	res.Event("sibling_placements", 1)
	sibID := ""
	for _, o := range cl.ops {
		if o.Kind == "set" && o.Accepted {
			sibID = o.ID
		} else if o.Err != "" {
			res.Violate(id, "c05:sibling:set-error", fmt.Sprintf("set of %q (same hash as %q, which GC is relocating at %s): %s", sib, target, step, o.Err), c)
			return
		}
	}
	check := func(phase string, hs *store.HStore) bool {
		rd := &vfClient{hs: hs, id: 97}
		for _, kv := range [][2]string{{target, wantID}, {sib, sibID}} {
			op := rd.get(kv[0], false, true)
			res.Eval(1)
			switch {
			case op.Err != "":
				res.Violate(id, "c05:sibling:"+phase+":get-error", fmt.Sprintf("key %q %s: %s (GC was parked at %s for %q while %q, same hash, was set)", kv[0], phase, op.Err, step, target, sib), map[string]interface{}{"case": c, "history": append(pre.ops, cl.ops...)})
				return false
			case kv[1] != "" && op.Ver <= 0:
				res.Violate(id, "c05:sibling:"+phase+":lost-write", fmt.Sprintf("key %q %s reads as a miss; its last acknowledged write is value %s (GC was parked at %s for %q while %q, same hash, was set)", kv[0], phase, kv[1], step, target, sib), map[string]interface{}{"case": c, "history": append(pre.ops, cl.ops...)})
				return false
			case kv[1] != "" && (op.GotID != kv[1] || !op.ValueOK):
				res.Violate(id, "c05:sibling:"+phase+":wrong-value", fmt.Sprintf("key %q %s reads value %q (bytes ok=%v); its last acknowledged write is value %s", kv[0], phase, op.GotID, op.ValueOK, kv[1]), map[string]interface{}{"case": c, "history": append(pre.ops, cl.ops...)})
				return false
			case kv[1] == "" && op.Ver > 0:
				res.Violate(id, "c05:sibling:"+phase+":resurrected", fmt.Sprintf("key %q %s reads value %q although its last acknowledged write is a delete", kv[0], phase, op.GotID), map[string]interface{}{"case": c, "history": append(pre.ops, cl.ops...)})
				return false
			}
		}
		return true
	}
	if !check("after-gc", sut.hs) {
		return
	}
	rm := []string{"", "hash", "all"}[r.Intn(3)]
	sut.quiet = true
	if _, err := sut.Restart(rm); err != nil {
		res.Violate(id, "c05:restart-error", fmt.Sprintf("reopen failed (removed %q): %v", rm, err), c)
		return
	}
	check("after-restart-rm-"+rm, sut.hs)
	res.Event("placement_cases", 1)
}

// vfC05RotationPending: a client write rotates the data file; the asynchronous flush of the
// previous file (spawned by the rotation) has not run yet - it is parked at its entry hook,
// as when it queues behind the periodic flusher - while the periodic flusher has already
// written the new head file. A GC request arriving now may resolve a range that ends with the
// previous file, whose newest records are still only in its write buffer. Every acknowledged
// write must survive the pass (and the process must survive the late flush).
func vfC05RotationPending(env *vfc.Env, id string, r *ref.Rand, merge bool) {
	res := env.Res
	cfg := vfC05Config(r)
	c := &vfC05Case{Cfg: cfg, Kind: "gc-while-post-rotation-flush-pending", Merge: merge, Seed: r.Uint64()}
	c.Keys = vfTagSafeKeys(r, r.Range(3, 6), cfg)
	maxVal := vfC05MaxVal(cfg)
	res.Begin(id, c)
	sut, err := vfOpenSUT(cfg, filepath.Join(env.Work, id), res)
	if err != nil {
		res.Violate(id, "c05:open-error", err.Error(), c)
		return
	}
	defer sut.Destroy()
	hooks := vfc.InstallHooks()
	pre := vfC05Preload(sut, c.Keys, r, maxVal)
	sut.quiet = false
	clientG := vfc.GoID()
	var parked int32
	release := make(chan struct{})
	var relOnce sync.Once
	doRelease := func() { relOnce.Do(func() { close(release) }) }
	defer doRelease()
	hooks.SetPoint(func(name string, x, y int64, s string) {
		// only the store's own post-rotation goroutine (it names a chunk) is parked
		if name == "data.flush.enter" && y >= 0 && vfc.GoID() != clientG {
			atomic.AddInt32(&parked, 1)
			<-release
		}
	})
	defer hooks.SetPoint(nil)
	cl := &vfClient{hs: sut.hs, id: 1}
	head0, _ := store.VFChunks(sut.hs, 0)
	// unflushed acknowledged writes into the head file until it rotates
	for i := 0; i < 200; i++ {
		cl.set(c.Keys[r.Intn(len(c.Keys))], "random", r.Range(60, maxVal))
		if h, _ := store.VFChunks(sut.hs, 0); h != head0 {
			break
		}
	}
	head, _ := store.VFChunks(sut.hs, 0)
	if head == head0 || atomic.LoadInt32(&parked) == 0 {
		// (the goroutine is spawned by the rotating write; give it a moment to reach its first statement)
		for i := 0; i < 2000 && atomic.LoadInt32(&parked) == 0; i++ {
			time.Sleep(100 * time.Microsecond)
		}
	}
	if head == head0 || atomic.LoadInt32(&parked) == 0 {
		res.Event("rotation_pending.not_reached", 1)
		return
	}
	// the periodic flusher writes the new head file (the flush of the previous one is still pending)
	store.VFFlush(sut.hs, true)
	ranges := store.VFLegalRanges(sut.hs, 0)
	var rg *[4]int
	for i := range ranges {
		if ranges[i][1] == head-1 {
			rg = &ranges[i]
		}
	}
	buffered := store.VFBufferedRecords(sut.hs, 0)
	if rg == nil {
		res.Seen("rotation-pending/range-not-offered")
		res.Event("rotation_pending.range_not_offered", 1)
	} else {
		c.Range = [2]int{rg[0], rg[1]}
		res.Seen(fmt.Sprintf("rotation-pending/gc-over-buffered-file/merge=%v", merge))
		res.Event("rotation_pending.gc_over_file_with_buffered_records", 1)
		res.Event("rotation_pending.buffered_records", int64(buffered))
		store.VFGCDirect(sut.hs, 0, rg[0], rg[1], merge)
	}
	doRelease() // now the late flush of the previous file runs
	hooks.SetPoint(nil)
	hooks.WaitQuiescent(vfWatchdog)
	cl.get(c.Keys[0], false, false)
	all := append(append([]lincheck.Op{}, pre.ops...), cl.ops...)
	vfC05Finish(res, id, c, sut, all, r)
	res.Event("placement_cases", 1)
}

// vfRunClientsOpt is vfRunClients with the hint dumper loop optional.
func vfRunClientsOpt(sut *vfSUT, sched *vfc.Sched, c *vfC04Case, r *ref.Rand, dumper bool) []lincheck.Op {
	if dumper {
		return vfRunClients(sut, sched, c, r, nil)
	}
	return vfRunClientsNoDumper(sut, sched, c, r)
}
