//go:build verif
// +build verif

package store

import (
	"bytes"
	"fmt"
	"io/ioutil"
	"os"
	"path/filepath"

	"github.com/douban/gobeansdb/cmem"
	"github.com/douban/gobeansdb/config"
	"verif/ref"
	"verif/vfc"
)

type vfC09Args struct {
	RoundTrips int // files written through the store's writers
	Files      int // files for the corruption campaign
	MaxRecs    int
	PerFile    int // sampled corruptions per large file
	BodyInC    int64
}

func vfRandRecord(r *ref.Rand, maxVal int) *ref.Record {
	kl := r.Pick(1, 1, 2, 7, 30, 249, 250, r.Range(1, 250))
	key := r.Bytes(kl)
	var vl int
	switch r.Intn(8) {
	case 0:
		vl = 0
	case 1: // around the block boundary: 24+kl+vl == 256 / 257 / 255 / 512
		t := r.Pick(255, 256, 257, 511, 512, 513)
		vl = t - 24 - kl
		if vl < 0 {
			vl = 0
		}
	case 2:
		vl = r.Range(0, maxVal)
	default:
		vl = r.Range(0, 600)
	}
	if vl > maxVal {
		vl = maxVal
	}
	rec := &ref.Record{Key: key, Value: r.Bytes(vl), Flag: uint32(r.Uint64()), Ver: int32(r.Uint64()), TS: uint32(r.Uint64())}
	switch r.Intn(6) {
	case 0:
		rec.Flag = 0
	case 1:
		rec.Ver = -rec.Ver
	case 2:
		rec.Ver = 1
	}
	return rec
}

func vfRecEq(rec *Record, want *ref.Record, storedFlag uint32) string {
	if rec == nil {
		return "nil record"
	}
	if !bytes.Equal(rec.Key, want.Key) {
		return fmt.Sprintf("key %x want %x", trunc(rec.Key, 32), trunc(want.Key, 32))
	}
	if !bytes.Equal(rec.Payload.Body, want.Value) {
		return fmt.Sprintf("value differs (len %d want %d)", len(rec.Payload.Body), len(want.Value))
	}
	if rec.Payload.Flag != storedFlag || rec.Payload.Ver != want.Ver || rec.Payload.TS != want.TS {
		return fmt.Sprintf("meta flag %#x ver %d ts %d want flag %#x ver %d ts %d", rec.Payload.Flag, rec.Payload.Ver, rec.Payload.TS, storedFlag, want.Ver, want.TS)
	}
	return ""
}

// vfC09RoundTrip writes records through the store's two writers and checks the
// file bytes against the reference encoder, then both read paths.
func vfC09RoundTrip(env *vfc.Env, id string, r *ref.Rand, dir string) {
	res := env.Res
	n := r.Range(1, 40)
	recs := make([]*ref.Record, n)
	for i := range recs {
		recs[i] = vfRandRecord(r, 70000)
		if r.Intn(25) == 0 { // the largest value the configured limit allows, and one byte less
			recs[i].Value = r.Bytes(int(vfBodyMax()) - r.Pick(0, 0, 1))
		}
	}
	useAppend := r.Bool()
	var expect []byte
	var offs []uint32
	var stored []*ref.Record // as written (after a possible server-side compression)
	path := ""
	home := filepath.Join(dir, id)
	os.MkdirAll(home, 0755)
	Conf.Home = home
	if useAppend {
		ds := NewdataStore(0, home)
		ds.ListFiles()
		for _, rr := range recs {
			p := &Payload{}
			p.Body = append([]byte(nil), rr.Value...)
			p.Flag, p.Ver, p.TS = rr.Flag, rr.Ver, rr.TS
			rec := &Record{append([]byte(nil), rr.Key...), p}
			pos, err := ds.AppendRecord(rec)
			if err != nil || pos.ChunkID != 0 {
				res.Violate(id, "c09:append-error", fmt.Sprintf("AppendRecord: pos %v err %v", pos, err), nil)
				return
			}
			st := &ref.Record{Key: rr.Key, Value: append([]byte(nil), rec.Payload.Body...), Flag: rec.Payload.Flag, Ver: rec.Payload.Ver, TS: rec.Payload.TS}
			if st.Flag&ref.FlagCompress != 0 && rr.Flag&ref.FlagCompress == 0 {
				res.Event("roundtrip.server_compressed", 1)
			}
			stored = append(stored, st)
			offs = append(offs, pos.Offset)
		}
		ds.flush(-1, true)
		path = ds.genPath(0)
		res.Event("roundtrip.via_AppendRecord", int64(n))
	} else {
		path = genDataPath(home, 0)
		w, err := GetStreamWriter(path, false)
		if err != nil {
			res.Inconc("GetStreamWriter: " + err.Error())
			return
		}
		for _, rr := range recs {
			p := &Payload{}
			p.Body = append([]byte(nil), rr.Value...)
			p.Flag, p.Ver, p.TS = rr.Flag, rr.Ver, rr.TS
			off, err := w.Append(&Record{append([]byte(nil), rr.Key...), p})
			if err != nil {
				res.Violate(id, "c09:append-error", "stream Append: "+err.Error(), nil)
				return
			}
			stored = append(stored, rr)
			offs = append(offs, off)
		}
		w.Close()
		res.Event("roundtrip.via_StreamWriter", int64(n))
	}
	exOff := uint32(0)
	for i, st := range stored {
		if offs[i] != exOff {
			res.Violate(id, "c09:offset", fmt.Sprintf("record %d reported at offset %d, reference layout says %d", i, offs[i], exOff), nil)
			return
		}
		enc := st.Encode()
		expect = append(expect, enc...)
		exOff += uint32(len(enc))
		_, padded := ref.RecordSizes(len(st.Key), len(st.Value))
		res.Seen(fmt.Sprintf("rt/blocks=%d/tail=%v", minInt(int(padded/256), 5), (24+len(st.Key)+len(st.Value))%256 == 0))
	}
	got, _ := ioutil.ReadFile(path)
	res.Eval(1)
	if !bytes.Equal(got, expect) {
		d := 0
		for d < len(got) && d < len(expect) && got[d] == expect[d] {
			d++
		}
		res.Violate(id, "c09:layout", fmt.Sprintf("file bytes differ from the reference encoder: len %d want %d, first difference at byte %d", len(got), len(expect), d), nil)
		return
	}
	if len(got)%256 != 0 {
		res.Violate(id, "c09:align", fmt.Sprintf("file size %d not a multiple of 256", len(got)), nil)
	}
	// positional reads
	for i, st := range stored {
		wrec, err := readRecordAtPath(path, offs[i])
		res.Eval(1)
		if err != nil {
			res.Violate(id, "c09:posread-error", fmt.Sprintf("positional read of intact record %d at %d: %v", i, offs[i], err), nil)
			continue
		}
		if d := vfRecEq(wrec.rec, st, st.Flag); d != "" {
			res.Violate(id, "c09:posread-diff", fmt.Sprintf("positional read of record %d at %d: %s", i, offs[i], d), nil)
		}
		cmem.DBRL.GetData.SubSizeAndCount(wrec.rec.Payload.CArray.Cap)
		wrec.rec.Payload.Free()
	}
	// sequential scan
	sr, err := newDataStreamReader(path, 1<<16)
	if err != nil {
		res.Inconc("open stream reader: " + err.Error())
		return
	}
	defer sr.Close()
	for i, st := range stored {
		rec, off, broken, err := sr.Next()
		res.Eval(1)
		if err != nil || rec == nil {
			res.Violate(id, "c09:scan-error", fmt.Sprintf("scan stopped at record %d of an undamaged file: rec=%v err=%v", i, rec != nil, err), nil)
			return
		}
		if off != offs[i] || broken != 0 {
			res.Violate(id, "c09:scan-offset", fmt.Sprintf("scan record %d offset %d broken %d want offset %d", i, off, broken, offs[i]), nil)
		}
		if d := vfRecEq(rec, st, st.Flag); d != "" {
			res.Violate(id, "c09:scan-diff", fmt.Sprintf("scan record %d: %s", i, d), nil)
		}
	}
	if rec, _, _, err := sr.Next(); rec != nil || err != nil {
		res.Violate(id, "c09:scan-extra", fmt.Sprintf("scan returned something after the last record: rec=%v err=%v", rec != nil, err), nil)
	}
	if !cmem.DBRL.GetData.IsZero() {
		res.Violate(id, "c09:getdata-leak", fmt.Sprintf("GetData counter not zero after round trip: %+v", cmem.DBRL.GetData), nil)
		cmem.DBRL.ResetAll()
	}
	if env.Res.NViolations() == 0 {
		res.Sample(map[string]interface{}{"case": id, "records": n, "writer": map[bool]string{true: "dataStore.AppendRecord+flush", false: "DataStreamWriter"}[useAppend], "file_bytes": len(got)})
	}
	os.RemoveAll(home)
}

func minInt(a, b int) int {
	if a < b {
		return a
	}
	return b
}

type vfCorruption struct {
	Kind string `json:"kind"`
	Pos  int    `json:"pos"`
	Len  int    `json:"len"`
	Val  uint32 `json:"val"`
}

func (c vfCorruption) apply(img []byte) []byte {
	out := append([]byte(nil), img...)
	switch c.Kind {
	case "flip":
		out[c.Pos] ^= byte(c.Val)
	case "set":
		out[c.Pos] = byte(c.Val)
	case "fill":
		for i := c.Pos; i < c.Pos+c.Len && i < len(out); i++ {
			out[i] = byte(c.Val)
		}
	case "rand":
		r := ref.NewRand(uint64(c.Val))
		copy(out[c.Pos:minInt(c.Pos+c.Len, len(out))], r.Bytes(c.Len))
	case "trunc":
		out = out[:c.Pos]
	case "u32":
		if c.Pos+4 <= len(out) {
			out[c.Pos] = byte(c.Val)
			out[c.Pos+1] = byte(c.Val >> 8)
			out[c.Pos+2] = byte(c.Val >> 16)
			out[c.Pos+3] = byte(c.Val >> 24)
		}
	}
	return out
}

// vfC09Check runs both read paths over a damaged image and applies the oracle.
func vfC09Check(env *vfc.Env, id string, path string, img []byte, orig []ref.Scanned, cors []vfCorruption) {
	res := env.Res
	dmg := img
	for _, c := range cors {
		dmg = c.apply(dmg)
	}
	if bytes.Equal(dmg, img) {
		return
	}
	res.Eval(1)
	ioutil.WriteFile(path, dmg, 0644)
	replay := map[string]interface{}{"corruptions": cors, "image_hex": fmt.Sprintf("%x", img)}
	if len(img) > 8192 {
		delete(replay, "image_hex")
	}
	intact := make([]bool, len(orig))
	firstDamaged := -1
	for i, o := range orig {
		raw := 24 + len(o.Rec.Key) + len(o.Rec.Value)
		end := int(o.Off) + raw
		intact[i] = end <= len(dmg) && bytes.Equal(dmg[o.Off:end], img[o.Off:end])
		if !intact[i] && firstDamaged < 0 {
			firstDamaged = i
		}
	}
	before := cmem.DBRL.GetData
	// positional reads
	for i, o := range orig {
		wrec, err := readRecordAtPath(path, o.Off)
		if intact[i] {
			if err != nil {
				res.Violate(id, "c09:posread-intact-error", fmt.Sprintf("intact record %d at %d not readable: %v", i, o.Off, err), replay)
			} else if d := vfRecEq(wrec.rec, o.Rec, o.Rec.Flag); d != "" {
				res.Violate(id, "c09:posread-intact-diff", fmt.Sprintf("intact record %d at %d: %s", i, o.Off, d), replay)
			}
		} else if err == nil {
			res.Violate(id, "c09:posread-damaged-accepted", fmt.Sprintf("damaged record %d at %d returned as valid (%s)", i, o.Off, wrec.rec.LogString()), replay)
		}
		if err == nil {
			cmem.DBRL.GetData.SubSizeAndCount(wrec.rec.Payload.CArray.Cap)
			wrec.rec.Payload.Free()
		}
	}
	if cmem.DBRL.GetData.Count != before.Count || cmem.DBRL.GetData.Size != before.Size {
		res.Violate(id, "c09:getdata-leak", fmt.Sprintf("GetData counter changed by failed reads: %d/%d -> %d/%d", before.Count, before.Size, cmem.DBRL.GetData.Count, cmem.DBRL.GetData.Size), replay)
		cmem.DBRL.GetData.Count, cmem.DBRL.GetData.Size = before.Count, before.Size
	}
	// sequential scan
	sr, err := newDataStreamReader(path, 1<<16)
	if err != nil {
		if len(dmg) == 0 {
			return
		}
		res.Inconc("open stream reader: " + err.Error())
		return
	}
	defer sr.Close()
	byOff := map[uint32]int{}
	for i, o := range orig {
		byOff[o.Off] = i
	}
	seen := make([]bool, len(orig))
	var scanErr error
	for steps := 0; steps < len(orig)+len(dmg)/256+4; steps++ {
		rec, off, _, err := sr.Next()
		if err != nil {
			scanErr = err
			break
		}
		if rec == nil {
			break
		}
		i, ok := byOff[off]
		if !ok {
			res.Violate(id, "c09:scan-phantom", fmt.Sprintf("scan yielded a record at offset %d where no original record starts (%s)", off, rec.LogString()), replay)
			continue
		}
		if !intact[i] {
			res.Violate(id, "c09:scan-damaged-accepted", fmt.Sprintf("scan yielded damaged record %d at %d as valid", i, off), replay)
			continue
		}
		if d := vfRecEq(rec, orig[i].Rec, orig[i].Rec.Flag); d != "" {
			res.Violate(id, "c09:scan-diff", fmt.Sprintf("scan record %d at %d: %s", i, off, d), replay)
		}
		if seen[i] {
			res.Violate(id, "c09:scan-dup", fmt.Sprintf("scan yielded record %d twice", i), replay)
		}
		seen[i] = true
	}
	missed := -1
	for i := range orig {
		if intact[i] && !seen[i] {
			missed = i
			break
		}
	}
	if missed >= 0 {
		why := "skipped"
		sig := "c09:scan-missed-intact"
		if scanErr != nil {
			why = "scan aborted with error: " + scanErr.Error()
			sig = "c09:scan-abort"
			// classify the damage that made the scan abort
			if firstDamaged >= 0 {
				o := orig[firstDamaged]
				if int(o.Off)+24 <= len(dmg) {
					rr, _, derr := ref.DecodeAt(dmg, int(o.Off), uint32(vfBodyMax()))
					_ = rr
					if derr == ref.ErrShort {
						sig = "c09:scan-abort:size-field-beyond-eof"
					}
				}
			}
		}
		res.Violate(id, sig, fmt.Sprintf("intact record %d at offset %d (first damaged record: %d) was never yielded by the sequential scan: %s", missed, orig[missed].Off, firstDamaged, why), replay)
	}
	// scan-and-copy (what GC does with a source file): every record a second scan yields is
	// appended through the stream writer; the copy must be the reference encoding of exactly
	// the intact records, every returned offset 256-aligned and where the record really is,
	// and every copied record readable by position.
	vfC09Copy(env, id, path, orig, intact, replay)
	kind := cors[0].Kind
	if len(cors) > 1 {
		kind = "multi"
	}
	where := "none"
	if firstDamaged >= 0 {
		o := orig[firstDamaged]
		p := cors[0].Pos - int(o.Off)
		switch {
		case cors[0].Kind == "trunc":
			where = "trunc"
		case p < 4:
			where = "crc"
		case p < 16:
			where = "meta"
		case p < 24:
			where = "sizes"
		case p < 24+len(o.Rec.Key):
			where = "key"
		default:
			where = "value"
		}
	} else {
		where = "padding-only"
	}
	res.Seen("corrupt/" + kind + "/" + where)
	res.Event("corrupt."+kind, 1)
}

var vfC09CopyN int

func vfC09Copy(env *vfc.Env, id, path string, orig []ref.Scanned, intact []bool, replay interface{}) {
	res := env.Res
	vfC09CopyN++
	if vfC09CopyN%8 != 0 { // sampled: one damaged image in eight is also copied
		return
	}
	sr, err := newDataStreamReader(path, 1<<16)
	if err != nil {
		return
	}
	defer sr.Close()
	cpath := path + ".copy"
	defer os.Remove(cpath)
	os.Remove(cpath)
	w, err := GetStreamWriter(cpath, false)
	if err != nil {
		res.Inconc("open stream writer: " + err.Error())
		return
	}
	byOff := map[uint32]int{}
	for i, o := range orig {
		byOff[o.Off] = i
	}
	type placed struct {
		i   int
		off uint32
	}
	var out []placed
	var want []byte
	for steps := 0; steps < len(orig)+4; steps++ {
		rec, off, _, err := sr.Next()
		if err != nil || rec == nil {
			break
		}
		i, ok := byOff[off]
		if !ok || !intact[i] {
			continue // reported by the scan oracle above
		}
		noff, err := w.Append(rec)
		if err != nil {
			res.Violate(id, "c09:copy-append-error", fmt.Sprintf("appending scanned record %d to a copy: %v", i, err), replay)
			w.Close()
			return
		}
		if noff%256 != 0 || int(noff) != len(want) {
			res.Violate(id, "c09:copy-offset", fmt.Sprintf("scanned record %d (original offset %d) was appended to the copy at offset %d, the writer reports offset %d (not aligned or not where the record is)", i, off, len(want), noff), replay)
			w.Close()
			return
		}
		out = append(out, placed{i, noff})
		want = append(want, orig[i].Rec.Encode()...)
	}
	end := w.Offset()
	w.Close()
	res.Eval(1)
	res.Event("copy.files", 1)
	res.Event("copy.records", int64(len(out)))
	got, _ := ioutil.ReadFile(cpath)
	if int(end) != len(want) || !bytes.Equal(got, want) {
		res.Violate(id, "c09:copy-bytes", fmt.Sprintf("copy of %d scanned records: writer says the file ends at %d, file has %d bytes, reference encoding has %d bytes (%s)", len(out), end, len(got), len(want), ref.DiffBytes(got, want)), replay)
		return
	}
	for _, pl := range out {
		wrec, err := readRecordAtPath(cpath, pl.off)
		if err != nil {
			res.Violate(id, "c09:copy-posread", fmt.Sprintf("copied record %d not readable at the offset %d returned by the writer: %v", pl.i, pl.off, err), replay)
			return
		}
		if d := vfRecEq(wrec.rec, orig[pl.i].Rec, orig[pl.i].Rec.Flag); d != "" {
			res.Violate(id, "c09:copy-posread-diff", fmt.Sprintf("copied record %d at %d: %s", pl.i, pl.off, d), replay)
		}
		cmem.DBRL.GetData.SubSizeAndCount(wrec.rec.Payload.CArray.Cap)
		wrec.rec.Payload.Free()
	}
}

func vfBodyMax() int64 {
	return configBodyMax()
}

func vfC09Corrupt(env *vfc.Env, id string, r *ref.Rand, dir string, a *vfC09Args) {
	res := env.Res
	n := r.Range(1, a.MaxRecs)
	small := r.Intn(3) > 0
	var img []byte
	// every third image is written and scanned under a small body_max, with values of exactly
	// body_max and body_max-1 bytes among its records (the largest value the limit allows)
	oldBM := config.MCConf.BodyMax
	defer func() { config.MCConf.BodyMax = oldBM }()
	atLimit := r.Intn(3) == 0
	if atLimit {
		config.MCConf.BodyMax = int64(r.Pick(300, 600, 1000, 2999))
		res.Event("corrupt.images_with_values_at_body_max", 1)
	}
	for i := 0; i < n; i++ {
		mv := 3000
		if small {
			mv = 300
			if n > 8 {
				n = r.Range(1, 8)
			}
		}
		rec := vfRandRecord(r, mv)
		if small && len(rec.Value) > 300 {
			rec.Value = rec.Value[:300]
		}
		if atLimit {
			bm := int(config.MCConf.BodyMax)
			if len(rec.Value) > bm {
				rec.Value = rec.Value[:bm]
			}
			if i%3 == 1 || n == 1 {
				rec.Value = r.Bytes(bm - r.Pick(0, 0, 1))
			}
		}
		img = append(img, rec.Encode()...)
	}
	orig, torn := ref.ScanFile(img, uint32(vfBodyMax()))
	if torn {
		res.Inconc("reference scanner reports a torn tail on a freshly encoded image")
		return
	}
	path := filepath.Join(dir, id+".data")
	defer os.Remove(path)
	exhaustive := len(img) <= 4096
	if exhaustive {
		res.Event("corrupt.files_exhaustive", 1)
		for pos := 0; pos < len(img); pos++ {
			vfC09Check(env, id, path, img, orig, []vfCorruption{{Kind: "flip", Pos: pos, Val: uint32(1) << uint(r.Intn(8))}})
			vfC09Check(env, id, path, img, orig, []vfCorruption{{Kind: "set", Pos: pos, Val: 0}})
			vfC09Check(env, id, path, img, orig, []vfCorruption{{Kind: "set", Pos: pos, Val: 0xff}})
		}
		for l := 0; l < len(img); l++ {
			vfC09Check(env, id, path, img, orig, []vfCorruption{{Kind: "trunc", Pos: l}})
		}
	} else {
		res.Event("corrupt.files_sampled", 1)
		for k := 0; k < a.PerFile; k++ {
			pos := r.Intn(len(img))
			vfC09Check(env, id, path, img, orig, []vfCorruption{{Kind: "flip", Pos: pos, Val: uint32(1) << uint(r.Intn(8))}})
			vfC09Check(env, id, path, img, orig, []vfCorruption{{Kind: "trunc", Pos: r.Intn(len(img))}})
		}
	}
	// multi-byte damage, zeroed blocks, size-field damage, combinations
	for k := 0; k < a.PerFile; k++ {
		pos := r.Intn(len(img))
		vfC09Check(env, id, path, img, orig, []vfCorruption{{Kind: "rand", Pos: pos, Len: r.Range(2, 40), Val: uint32(r.Uint64())}})
		blk := r.Intn(len(img)/256) * 256
		vfC09Check(env, id, path, img, orig, []vfCorruption{{Kind: "fill", Pos: blk, Len: 256 * r.Range(1, 3), Val: uint32(r.Pick(0, 0, 0xff))}})
		vfC09Check(env, id, path, img, orig, []vfCorruption{
			{Kind: "flip", Pos: r.Intn(len(img)), Val: uint32(1) << uint(r.Intn(8))},
			{Kind: "rand", Pos: r.Intn(len(img)), Len: r.Range(1, 300), Val: uint32(r.Uint64())}})
	}
	for _, o := range orig {
		ksz := uint32(len(o.Rec.Key))
		vsz := uint32(len(o.Rec.Value))
		bm := uint32(vfBodyMax())
		for _, v := range []uint32{0, 251, ksz + 1, ksz - 1, 1 << 31} {
			vfC09Check(env, id, path, img, orig, []vfCorruption{{Kind: "u32", Pos: int(o.Off) + 16, Val: v}})
		}
		for _, v := range []uint32{0, vsz + 1, vsz - 1, vsz + 256, vsz + 4096, bm / 2, bm, bm + 1, 1 << 31, 0xffffffff} {
			if v == vsz {
				continue
			}
			vfC09Check(env, id, path, img, orig, []vfCorruption{{Kind: "u32", Pos: int(o.Off) + 20, Val: v}})
		}
	}
	if len(res.Samples) < 2 {
		res.Sample(map[string]interface{}{"case": id, "records": len(orig), "image_bytes": len(img), "exhaustive_byte_positions": exhaustive})
	}
}

func vfC09(env *vfc.Env) {
	var a vfC09Args
	env.ParseArgs(&a)
	if a.MaxRecs == 0 {
		a.MaxRecs = 50
	}
	VFApplyConfig(VFConfig{NumBucket: 1, BodyMax: 128 << 10, BodyInC: a.BodyInC}, filepath.Join(env.Work, "home"))
	rnd := ref.NewRand(env.Seed)
	for i := 0; i < a.RoundTrips; i++ {
		id := fmt.Sprintf("rt-%d", i)
		r := rnd.Split(uint64(i))
		if !env.Want(id) {
			continue
		}
		env.Res.Begin(id, nil)
		vfC09RoundTrip(env, id, r, env.Work)
	}
	for i := 0; i < a.Files; i++ {
		id := fmt.Sprintf("cor-%d", i)
		r := rnd.Split(uint64(1000000 + i))
		if !env.Want(id) {
			continue
		}
		env.Res.Begin(id, nil)
		vfC09Corrupt(env, id, r, env.Work, &a)
	}
}
