//go:build verif
// +build verif

package store

import (
	"fmt"
	"io/ioutil"
	"os"
	"path/filepath"
	"sort"

	"verif/ref"
	"verif/vfc"
)

type vfC14Args struct {
	Cases    int
	MaxItems int
}

const vfKeyAlphabet = "abcdefghijklmnopqrstuvwxyzABCDEFGHIJKLMNOPQRSTUVWXYZ0123456789_-/:."

func vfRandKey(r *ref.Rand, l int) string {
	b := make([]byte, l)
	for i := range b {
		b[i] = vfKeyAlphabet[r.Intn(len(vfKeyAlphabet))]
	}
	return string(b)
}

// vfGenHintItems returns n items with unique (hash,key) pairs, including
// same-hash groups and the extreme hashes.
func vfGenHintItems(r *ref.Rand, n int) []ref.HintItem {
	mode := r.Intn(4)
	seen := map[string]bool{}
	var items []ref.HintItem
	off := uint32(0)
	for len(items) < n {
		var h uint64
		switch mode {
		case 0:
			h = r.Uint64()
		case 1:
			h = uint64(r.Intn(n*2 + 1)) // dense small hashes
		case 2:
			h = r.Uint64()&0xffff | uint64(r.Intn(4))<<60 // clustered
		default:
			h = ^uint64(0) - uint64(r.Intn(n*3+1)) // dense at the top end
		}
		switch r.Intn(40) {
		case 0:
			h = 0
		case 1:
			h = ^uint64(0)
		}
		group := 1
		if r.Intn(12) == 0 {
			group = r.Range(2, 4)
		}
		for g := 0; g < group && len(items) < n; g++ {
			kl := r.Pick(1, 2, 8, 20, 20, 40, 249, 250, r.Range(1, 250))
			k := vfRandKey(r, kl)
			id := fmt.Sprintf("%x/%s", h, k)
			if seen[id] {
				continue
			}
			seen[id] = true
			ver := int32(r.Range(1, 1000))
			if r.Intn(5) == 0 {
				ver = -ver
			}
			items = append(items, ref.HintItem{Keyhash: h, Offset: off, Ver: ver, Vhash: uint16(r.Uint64()), Key: k})
			off += uint32(256 * r.Range(1, 3))
		}
	}
	return items
}

func vfToHintItem(it ref.HintItem) *HintItem {
	return newHintItem(it.Keyhash, it.Ver, it.Vhash, Position{0, it.Offset}, it.Key)
}

func vfHintEq(got *HintItem, want ref.HintItem, chunk int) string {
	if got == nil {
		return "nil"
	}
	if got.Keyhash != want.Keyhash || got.Key != want.Key || got.Ver != want.Ver || got.Vhash != want.Vhash || got.Pos.Offset != want.Offset || got.Pos.ChunkID != chunk {
		return fmt.Sprintf("got {%016x %q ver %d vhash %d pos %v} want {%016x %q ver %d vhash %d chunk %d off %d}",
			got.Keyhash, got.Key, got.Ver, got.Vhash, got.Pos, want.Keyhash, want.Key, want.Ver, want.Vhash, chunk, want.Offset)
	}
	return ""
}

// vfWriteHint writes items (any order) into a hint file through one of the
// store's two writers and returns the expected content.
func vfWriteHint(r *ref.Rand, path string, items []ref.HintItem, viaBuffer bool) (expect []ref.HintItem, datasize uint32, memIndex *hintFileIndex, err error) {
	last := map[string]int{}
	for i, it := range items {
		last[fmt.Sprintf("%x/%s", it.Keyhash, it.Key)] = i
	}
	for i, it := range items {
		if last[fmt.Sprintf("%x/%s", it.Keyhash, it.Key)] == i {
			expect = append(expect, it)
		}
	}
	ref.SortHintItems(expect)
	if viaBuffer {
		Conf.SplitCap = int64(len(items) + 4)
		buf := NewHintBuffer()
		for _, it := range items {
			rs := uint32(256)
			if !buf.Set(vfToHintItem(it), rs) {
				return nil, 0, nil, fmt.Errorf("HintBuffer.Set refused an item below capacity")
			}
			if it.Offset+rs > datasize {
				datasize = it.Offset + rs
			}
		}
		memIndex, err = buf.Dump(path)
		return
	}
	for _, it := range expect {
		if it.Offset+256 > datasize {
			datasize = it.Offset + 256
		}
	}
	w, e := newHintFileWriter(path, datasize, r.Pick(64, 4096, 1<<20))
	if e != nil {
		return nil, 0, nil, e
	}
	for _, it := range expect {
		w.writeItem(vfToHintItem(it))
	}
	w.close()
	return
}

func vfC14Lookups(env *vfc.Env, id string, r *ref.Rand, idx *hintFileIndex, which string, expect []ref.HintItem, replay interface{}) {
	res := env.Res
	present := map[string]bool{}
	hashes := map[uint64]bool{}
	for _, it := range expect {
		present[fmt.Sprintf("%x/%s", it.Keyhash, it.Key)] = true
		hashes[it.Keyhash] = true
	}
	step := 1
	if len(expect) > 600 {
		step = len(expect) / 600
	}
	for i := 0; i < len(expect); i += step {
		it := expect[i]
		got, err := vfSafeGet(idx, it.Keyhash, it.Key)
		res.Eval(1)
		res.Event("lookup.present", 1)
		if err != nil {
			res.Violate(id, "c14:get-present-error", fmt.Sprintf("[%s] lookup of present item %d/%d (%016x %q) returned error: %v", which, i, len(expect), it.Keyhash, it.Key, err), replay)
			return
		}
		if d := vfHintEq(got, it, 0); d != "" {
			res.Violate(id, "c14:get-present-diff", fmt.Sprintf("[%s] lookup of present item %d/%d: %s", which, i, len(expect), d), replay)
			return
		}
	}
	type absent struct {
		kind string
		h    uint64
		k    string
	}
	var abs []absent
	if len(expect) > 0 {
		lo, hi := expect[0].Keyhash, expect[len(expect)-1].Keyhash
		if lo > 0 {
			abs = append(abs, absent{"below-all", lo - 1, "x"}, absent{"below-all", lo / 2, expect[0].Key})
		}
		if hi < ^uint64(0) {
			abs = append(abs, absent{"above-all", hi + 1, "x"}, absent{"above-all", hi + (^uint64(0)-hi)/2 + 1, expect[len(expect)-1].Key})
		}
		for k := 0; k < 30; k++ {
			i := r.Intn(len(expect))
			it := expect[i]
			abs = append(abs, absent{"same-hash-other-key", it.Keyhash, it.Key + "~"})
			if i+1 < len(expect) && expect[i+1].Keyhash > it.Keyhash+1 {
				abs = append(abs, absent{"between", it.Keyhash + 1 + (expect[i+1].Keyhash-it.Keyhash-1)/2, it.Key})
			}
		}
	} else {
		abs = append(abs, absent{"empty-file", r.Uint64(), "x"})
	}
	abs = append(abs, absent{"hash-zero", 0, "no-such-key"}, absent{"hash-max", ^uint64(0), "no-such-key"})
	for _, a := range abs {
		if present[fmt.Sprintf("%x/%s", a.h, a.k)] {
			continue
		}
		got, err := vfSafeGet(idx, a.h, a.k)
		res.Eval(1)
		res.Event("lookup.absent."+a.kind, 1)
		res.Seen(fmt.Sprintf("absent/%s/index=%s", a.kind, vfBucket(len(idx.index))))
		if err != nil {
			res.Violate(id, "c14:get-absent-error:"+a.kind, fmt.Sprintf("[%s] lookup of absent key (%s: %016x %q) in a file of %d items with %d index entries returned an error instead of not-found: %v", which, a.kind, a.h, a.k, len(expect), len(idx.index), err), replay)
			return
		}
		if got != nil {
			res.Violate(id, "c14:get-absent-found:"+a.kind, fmt.Sprintf("[%s] lookup of absent key (%s: %016x %q) returned an item %016x %q", which, a.kind, a.h, a.k, got.Keyhash, got.Key), replay)
			return
		}
	}
}

func vfBucket(n int) string {
	switch {
	case n == 0:
		return "0"
	case n == 1:
		return "1"
	case n < 10:
		return "2-9"
	}
	return "10+"
}

func vfSafeGet(idx *hintFileIndex, h uint64, k string) (it *HintItem, err error) {
	defer func() {
		if e := recover(); e != nil {
			err = fmt.Errorf("panic: %v", e)
		}
	}()
	return idx.get(h, k)
}

func vfC14File(env *vfc.Env, id string, r *ref.Rand, dir string, maxItems int) {
	res := env.Res
	n := r.Pick(0, 1, 2, 3, r.Range(4, 60), r.Range(4, 60), r.Range(60, 600), r.Range(600, maxItems))
	Conf.IndexIntervalSize = int64(r.Pick(64, 280, 300, 512, 1024, 4096))
	items := vfGenHintItems(r, n)
	// add re-sets of some keys (same key set twice in one split)
	if len(items) > 0 && r.Bool() {
		for k := 0; k < len(items)/5+1; k++ {
			it := items[r.Intn(len(items))]
			it.Ver++
			it.Offset += 256 * 1000
			items = append(items, it)
		}
	}
	viaBuffer := r.Bool()
	path := filepath.Join(dir, id+".000.idx.s")
	defer os.Remove(path)
	replay := map[string]interface{}{"items": len(items), "index_interval": Conf.IndexIntervalSize, "via_buffer": viaBuffer}
	expect, datasize, memIdx, err := vfWriteHint(r, path, items, viaBuffer)
	if err != nil {
		res.Violate(id, "c14:write-error", err.Error(), replay)
		return
	}
	res.Eval(1)
	// read back with the store's reader
	rd := newHintFileReader(path, 7, r.Pick(64, 300, 1<<20))
	if err := rd.open(); err != nil {
		res.Violate(id, "c14:open-error", err.Error(), replay)
		return
	}
	for i := 0; ; i++ {
		it, err := rd.next()
		if err != nil {
			res.Violate(id, "c14:read-error", fmt.Sprintf("reader error at item %d/%d: %v", i, len(expect), err), replay)
			break
		}
		if it == nil {
			if i != len(expect) {
				res.Violate(id, "c14:read-short", fmt.Sprintf("reader ended after %d items, %d were written", i, len(expect)), replay)
			}
			break
		}
		if i >= len(expect) {
			res.Violate(id, "c14:read-extra", fmt.Sprintf("reader returned more than the %d items written", len(expect)), replay)
			break
		}
		if d := vfHintEq(it, expect[i], 0); d != "" {
			res.Violate(id, "c14:read-diff", fmt.Sprintf("item %d: %s", i, d), replay)
			break
		}
	}
	if rd.datasize != datasize || rd.numKey != len(expect) {
		res.Violate(id, "c14:read-meta", fmt.Sprintf("header says datasize %d numKey %d, written datasize %d numKey %d", rd.datasize, rd.numKey, datasize, len(expect)), replay)
	}
	rd.close()
	// independent decode of the file bytes
	raw, _ := ioutil.ReadFile(path)
	hf, perr := ref.ParseHintFile(raw)
	if perr != nil {
		res.Violate(id, "c14:layout", "reference parser rejects the file: "+perr.Error(), replay)
		return
	}
	if len(hf.Items) != len(expect) || hf.DataSize != datasize || int(hf.NumKey) != len(expect) {
		res.Violate(id, "c14:layout", fmt.Sprintf("reference parser sees %d items datasize %d numKey %d, expected %d / %d", len(hf.Items), hf.DataSize, hf.NumKey, len(expect), datasize), replay)
		return
	}
	for i := range expect {
		if hf.Items[i] != expect[i] {
			res.Violate(id, "c14:layout", fmt.Sprintf("reference parser item %d = %+v, expected %+v", i, hf.Items[i], expect[i]), replay)
			return
		}
	}
	for i, e := range hf.Index {
		j := sort.Search(len(hf.ItemOffsets), func(k int) bool { return hf.ItemOffsets[k] >= e.Offset })
		if j >= len(hf.ItemOffsets) || hf.ItemOffsets[j] != e.Offset || hf.Items[j].Keyhash != e.Keyhash {
			res.Violate(id, "c14:index-entry", fmt.Sprintf("index entry %d (%016x -> %d) does not point at an item with that hash", i, e.Keyhash, e.Offset), replay)
			return
		}
	}
	// lookups through the loaded index and the in-memory index of Dump
	idx, err := loadHintIndex(path)
	if err != nil {
		res.Violate(id, "c14:loadindex-error", err.Error(), replay)
		return
	}
	if idx.datasize != datasize || idx.numKey != len(expect) {
		res.Violate(id, "c14:loadindex-meta", fmt.Sprintf("loaded index meta %+v, expected datasize %d numKey %d", idx.hintFileMeta, datasize, len(expect)), replay)
	}
	vfC14Lookups(env, id, r, idx, "loadHintIndex", expect, replay)
	if memIdx != nil {
		vfC14Lookups(env, id, r, memIdx, "HintBuffer.Dump index", expect, replay)
	}
	res.Seen(fmt.Sprintf("file/items=%s/index=%s/buffer=%v", vfBucket(len(expect)), vfBucket(len(hf.Index)), viaBuffer))
	res.Event("files", 1)
	res.Event("items", int64(len(expect)))
	if len(expect) > 2 {
		res.Sample(map[string]interface{}{"case": id, "items": len(expect), "index_entries": len(hf.Index), "index_interval": Conf.IndexIntervalSize, "first": fmt.Sprintf("%016x %q", expect[0].Keyhash, expect[0].Key)})
	}
}

func vfC14Merge(env *vfc.Env, id string, r *ref.Rand, dir string, maxItems int) {
	res := env.Res
	k := r.Range(1, 8)
	Conf.IndexIntervalSize = int64(r.Pick(64, 512, 4096))
	Conf.NoMerged = false
	total := r.Pick(0, 3, 10, r.Range(10, 200), r.Range(200, maxItems))
	pool := vfGenHintItems(r, total+1)
	var srcs [][]ref.HintItem
	var readers []*hintFileReader
	var paths []string
	empty := 0
	maxds := uint32(0)
	chunk := 0
	sameChunk := 0
	for i := 0; i < k; i++ {
		if i > 0 && r.Intn(3) == 0 {
			sameChunk++ // another hint split of the same data file: same file id, only the offsets tell the entries apart
		} else {
			chunk += r.Range(1, 3)
		}
		n := r.Range(0, len(pool))
		if r.Intn(10) == 0 {
			n = 0
		}
		var its []ref.HintItem
		for _, j := range r.Perm(len(pool))[:n] {
			it := pool[j]
			// (a later hint split of the same file describes records further on in that file: offsets of
			// different splits never coincide - equal (file, offset) with different contents cannot exist)
			it.Offset = uint32(256 * (i*100000 + r.Intn(100000)))
			it.Ver = int32(r.Range(1, 50))
			if r.Intn(6) == 0 {
				it.Ver = -it.Ver
			}
			it.Vhash = uint16(r.Uint64())
			its = append(its, it)
		}
		path := filepath.Join(dir, fmt.Sprintf("%s.%03d.%03d.idx.s", id, chunk, i))
		exp, ds, _, err := vfWriteHint(r, path, its, r.Bool())
		if err != nil {
			res.Inconc("cannot write merge source: " + err.Error())
			return
		}
		if len(exp) == 0 {
			empty++
		}
		if ds > maxds {
			maxds = ds
		}
		for j := range exp {
			exp[j].Chunk = uint32(chunk)
		}
		srcs = append(srcs, exp)
		readers = append(readers, newHintFileReader(path, chunk, 4096))
		paths = append(paths, path)
	}
	defer func() {
		for _, p := range paths {
			os.Remove(p)
		}
	}()
	dst := filepath.Join(dir, id+".merged.idx.m")
	defer os.Remove(dst)
	ct := newCollisionTable()
	state := 0
	replay := map[string]interface{}{"sources": k, "empty_sources": empty, "pool": len(pool)}
	res.Eval(1)
	var idx *hintFileIndex
	var err error
	func() {
		defer func() {
			if e := recover(); e != nil {
				err = fmt.Errorf("panic: %v", e)
			}
		}()
		idx, err = merge(readers, dst, ct, &state, false)
	}()
	sigEmpty := ""
	if empty > 0 {
		sigEmpty = ":empty-source"
	}
	if err != nil {
		res.Violate(id, "c14:merge-error"+sigEmpty, fmt.Sprintf("merge of %d sources (%d empty) failed: %v", k, empty, err), replay)
		return
	}
	want, wantCol := ref.MergeHints(srcs)
	raw, _ := ioutil.ReadFile(dst)
	hf, perr := ref.ParseHintFile(raw)
	if perr != nil {
		res.Violate(id, "c14:merge-layout", "reference parser rejects the merged file: "+perr.Error(), replay)
		return
	}
	if len(hf.Items) != len(want) {
		res.Violate(id, "c14:merge-count"+sigEmpty, fmt.Sprintf("merged file has %d items, reference merge %d", len(hf.Items), len(want)), replay)
		return
	}
	for i := range want {
		if hf.Items[i] != want[i] {
			res.Violate(id, "c14:merge-diff", fmt.Sprintf("merged item %d = %+v, reference merge says %+v (greatest (file,offset) wins)", i, hf.Items[i], want[i]), replay)
			return
		}
	}
	if hf.DataSize != maxds {
		res.Violate(id, "c14:merge-datasize", fmt.Sprintf("merged datasize %d, max of sources %d", hf.DataSize, maxds), replay)
	}
	// collision table
	ngroups := 0
	for h, keys := range wantCol {
		ngroups++
		got := ct.Items[h]
		for key, wit := range keys {
			git, ok := got[key]
			if !ok {
				res.Violate(id, "c14:collision-missing", fmt.Sprintf("hash %016x is shared by %d keys but key %q is not in the collision table", h, len(keys), key), replay)
				return
			}
			if git.Ver != wit.Ver || git.Pos.Offset != wit.Offset || git.Pos.ChunkID != int(wit.Chunk) || git.Vhash != wit.Vhash {
				res.Violate(id, "c14:collision-diff", fmt.Sprintf("collision table entry %016x/%q = %+v, expected %+v", h, key, git, wit), replay)
				return
			}
		}
	}
	for h, keys := range ct.Items {
		if _, ok := wantCol[h]; !ok {
			res.Violate(id, "c14:collision-spurious", fmt.Sprintf("collision table lists hash %016x (%d keys) which is not shared by different keys", h, len(keys)), replay)
			return
		}
	}
	// lookups in the merged index
	if idx != nil && len(want) > 0 {
		for t := 0; t < 40; t++ {
			it := want[r.Intn(len(want))]
			got, err := vfSafeGet(idx, it.Keyhash, it.Key)
			res.Eval(1)
			if err != nil || got == nil || got.Key != it.Key || got.Pos.Offset != it.Offset || got.Pos.ChunkID != int(it.Chunk) {
				res.Violate(id, "c14:merged-get", fmt.Sprintf("lookup of %016x %q in merged index: got %+v err %v, want %+v", it.Keyhash, it.Key, got, err, it), replay)
				return
			}
		}
	}
	res.Seen(fmt.Sprintf("merge/sources=%d/empty=%v/groups=%s/items=%s", k, empty > 0, vfBucket(ngroups), vfBucket(len(want))))
	res.Event("merges", 1)
	if sameChunk > 0 {
		res.Event("merge.with_splits_of_one_file", 1)
	}
	res.Event("merge.collision_groups", int64(ngroups))
}

func vfC14(env *vfc.Env) {
	var a vfC14Args
	env.ParseArgs(&a)
	if a.MaxItems == 0 {
		a.MaxItems = 5000
	}
	VFApplyConfig(VFConfig{NumBucket: 1}, filepath.Join(env.Work, "home"))
	rnd := ref.NewRand(env.Seed)
	for i := 0; i < a.Cases; i++ {
		id := fmt.Sprintf("file-%d", i)
		r := rnd.Split(uint64(i))
		if env.Want(id) {
			env.Res.Begin(id, nil)
			vfC14File(env, id, r, env.Work, a.MaxItems)
		}
		id = fmt.Sprintf("merge-%d", i)
		r = rnd.Split(uint64(1000000 + i))
		if env.Want(id) {
			env.Res.Begin(id, nil)
			vfC14Merge(env, id, r, env.Work, a.MaxItems)
		}
	}
}
