//go:build verif
// +build verif

package store

import (
	"bytes"
	"encoding/binary"
	"fmt"

	"github.com/douban/gobeansdb/utils"
	"verif/ref"
	"verif/vfc"
)

type vfC16Args struct {
	Random    int  // random inputs per length class
	MaxLen    int  // every length 0..MaxLen is tried
	Exhaust2  bool // all 1- and 2-byte strings
	CRCMaxLen int
}

func vfC16One(env *vfc.Env, id string, b []byte, crcToo bool) {
	res := env.Res
	res.Eval(1)
	bad := func(what string, got, want uint64) {
		res.Violate(id, "c16:"+what, fmt.Sprintf("%s differs from the reference for input (len %d) %x: got %#x want %#x", what, len(b), trunc(b, 64), got, want),
			map[string]interface{}{"input_hex": fmt.Sprintf("%x", b)})
	}
	if g, w := getKeyHashDefalut(b), ref.KeyHash(b); g != w {
		bad("keyhash", g, w)
	}
	if g, w := fnv1a(b), ref.Fnv1aSigned(b); g != w {
		bad("fnv1a", uint64(g), uint64(w))
	}
	if g, w := murmur(b), ref.Murmur3_32(b); g != w {
		bad("murmur", uint64(g), uint64(w))
	}
	if g, w := utils.Fnv1a(b), ref.Fnv1aSigned(b); g != w {
		bad("utils.fnv1a", uint64(g), uint64(w))
	}
	if g, w := Getvhash(b), ref.ValueHash(b); g != w {
		bad("vhash", uint64(g), uint64(w))
	}
	if crcToo && len(b) > 0 {
		h := newCrc32()
		// feed in two parts to exercise the running state
		k := len(b) / 3
		if k > 0 {
			h.write(b[:k])
		}
		h.write(b[k:])
		w := ref.CRC32(b)
		if w2 := ref.CRC32Bitwise(b); len(b) <= 4096 && w2 != w {
			res.Inconc("reference CRC implementations disagree")
		}
		if g := h.get(); g != w {
			bad("crc32", uint64(g), uint64(w))
		}
	}
}

func trunc(b []byte, n int) []byte {
	if len(b) > n {
		return b[:n]
	}
	return b
}

func vfC16(env *vfc.Env) {
	var a vfC16Args
	env.ParseArgs(&a)
	res := env.Res
	if err := ref.SelfTest(); err != nil {
		res.Inconc("reference self-test failed: " + err.Error())
		return
	}
	rnd := ref.NewRand(env.Seed)
	classes := map[string]int64{}
	if a.Exhaust2 {
		res.Begin("exhaustive-1-2-bytes", nil)
		vfC16One(env, "len0", []byte{}, false)
		for x := 0; x < 256; x++ {
			vfC16One(env, fmt.Sprintf("b1-%02x", x), []byte{byte(x)}, true)
		}
		for x := 0; x < 65536; x++ {
			vfC16One(env, fmt.Sprintf("b2-%04x", x), []byte{byte(x >> 8), byte(x)}, true)
		}
		classes["exhaustive_1_2_bytes"] += 65536 + 256 + 1
		res.Seen("exhaustive-1byte")
		res.Seen("exhaustive-2byte")
	}
	// historical fixed vector of the repository's own suite plus sign-sensitive ones
	for i, s := range []string{"test", "\x80", "\xff\xfe\xfd", "key_\xe4\xb8\xad\xe6\x96\x87", "/ark/0/123456"} {
		vfC16One(env, fmt.Sprintf("fixed-%d", i), []byte(s), true)
		res.Seen("fixed-vector")
	}
	for l := 0; l <= a.MaxLen; l++ {
		id := fmt.Sprintf("len-%d", l)
		if !env.Want(id) && env.Only != "" {
			continue
		}
		if l%256 == 0 {
			res.Begin(id, nil)
		}
		for j := 0; j < a.Random; j++ {
			var b []byte
			cls := ""
			switch j % 4 {
			case 0:
				b = rnd.Bytes(l)
				cls = "random"
			case 1:
				b = rnd.Bytes(l)
				for i := range b {
					b[i] |= 0x80
				}
				cls = "highbit"
			case 2:
				b = bytes.Repeat([]byte{byte(rnd.Intn(256))}, l)
				cls = "constant"
			case 3:
				b = make([]byte, l)
				for i := range b {
					b[i] = "abcdefghijklmnopqrstuvwxyz0123456789_/"[rnd.Intn(38)]
				}
				cls = "text"
			}
			vfC16One(env, id, b, true)
			classes[cls]++
			lc := "len<=1024"
			if l > 1024 {
				lc = "len>1024"
			}
			if l >= 1020 && l <= 1028 {
				lc = fmt.Sprintf("len=%d", l)
			}
			res.Seen(cls + "/" + lc)
		}
	}
	// large CRC inputs and the on-disk CRC field written by the record writer
	for j := 0; j < a.Random; j++ {
		l := rnd.Range(1, a.CRCMaxLen)
		id := fmt.Sprintf("crc-%d", j)
		res.Begin(id, nil)
		b := rnd.Bytes(l)
		res.Eval(1)
		h := newCrc32()
		h.write(b)
		if g, w := h.get(), ref.CRC32(b); g != w {
			res.Violate(id, "c16:crc32", fmt.Sprintf("crc32 of %d random bytes (seed case %d): got %#x want %#x", l, j, g, w), nil)
		}
		res.Seen("crc-large")
		// record writer: CRC field of the encoded record
		kl := rnd.Range(1, 250)
		key := rnd.Bytes(kl)
		vl := rnd.Range(0, 3000)
		rec := &Record{key, &Payload{}}
		rec.Payload.Body = rnd.Bytes(vl)
		rec.Payload.Flag = uint32(rnd.Uint64())
		rec.Payload.Ver = int32(rnd.Uint64())
		rec.Payload.TS = uint32(rnd.Uint64())
		enc := rec.Dumps()
		res.Eval(1)
		if len(enc) != 24+kl+vl {
			res.Violate(id, "c16:dumps-len", fmt.Sprintf("Dumps length %d want %d", len(enc), 24+kl+vl), nil)
		} else if g, w := binary.LittleEndian.Uint32(enc[:4]), ref.CRC32(enc[4:]); g != w {
			res.Violate(id, "c16:record-crc", fmt.Sprintf("on-disk CRC field %#x, reference CRC of the record bytes %#x", g, w), nil)
		}
		res.Seen("record-crc-field")
		classes["crc_large"]++
	}
	for k, v := range classes {
		res.Event("inputs."+k, v)
	}
	res.Sample(map[string]interface{}{"input_hex": "80", "keyhash": fmt.Sprintf("%016x", getKeyHashDefalut([]byte{0x80})), "ref": fmt.Sprintf("%016x", ref.KeyHash([]byte{0x80}))})
	res.Sample(map[string]interface{}{"input": "test", "vhash": Getvhash([]byte("test")), "ref": ref.ValueHash([]byte("test"))})
}
