//go:build verif
// +build verif

package store

import (
	"bytes"
	"fmt"
	"path/filepath"
	"sort"
	"strings"

	"verif/ref"
	"verif/vfc"
)

type vfC08Args struct {
	Cases int
	Ops   int
}

func vfTreeList(tree *HTree, path string) ([]byte, error) {
	ki := &KeyInfo{StringKey: path, Key: []byte(path), KeyIsPath: true}
	if err := ki.Prepare(); err != nil {
		return nil, err
	}
	return tree.ListDir(ki)
}

func vfSortedLines(b []byte) string {
	l := strings.Split(strings.TrimRight(string(b), "\n"), "\n")
	sort.Strings(l)
	return strings.Join(l, "\n")
}

// vfC08Tree drives HTree.set/remove directly (large leaf populations are cheap
// here) and compares every listing with the reference recomputation, with a
// second tree built from the same final content by another history, and with a
// tree that went through dump + load.
func vfC08Tree(env *vfc.Env) {
	var a vfC08Args
	env.ParseArgs(&a)
	res := env.Res
	rnd := ref.NewRand(env.Seed)
	for c := 0; c < a.Cases; c++ {
		id := fmt.Sprintf("tree-%d", c)
		if !env.Want(id) {
			continue
		}
		r := rnd.Split(uint64(c))
		nb := r.Pick(1, 16, 256)
		depth := map[int]int{1: 0, 16: 1, 256: 2}[nb]
		height := r.Range(2, minInt(8-depth, 5))
		VFApplyConfig(VFConfig{NumBucket: nb, TreeHeight: height}, filepath.Join(env.Work, "t"))
		bucket := r.Intn(nb)
		res.Begin(id, map[string]interface{}{"buckets": nb, "height": height, "bucket": bucket})
		// hash pool: concentrated under a few leaves so that populations cross 100 and 256
		nLeaves := r.Pick(1, 2, 5, 40)
		leafDigits := depth + height - 1
		var leafPrefixes []uint64
		for i := 0; i < nLeaves; i++ {
			p := r.Uint64()
			if depth > 0 {
				p = p&^(^uint64(0)<<uint(64-4*depth)) | uint64(bucket)<<uint(64-4*depth)
			}
			leafPrefixes = append(leafPrefixes, p>>uint(64-4*leafDigits)<<uint(64-4*leafDigits))
		}
		pool := r.Pick(30, 120, 300, 700, 1500)
		hashes := make([]uint64, pool)
		for i := range hashes {
			hashes[i] = leafPrefixes[r.Intn(nLeaves)] | r.Uint64()>>uint(4*leafDigits)
		}
		content := map[uint64]ref.MItem{}
		tree := newHTree(depth, bucket, height)
		apply := func(t *HTree, it ref.MItem, pos Position) {
			ki := NewKeyInfoFromBytes([]byte(fmt.Sprintf("k%x", it.Hash)), it.Hash, false)
			t.set(ki, &Meta{Ver: it.Ver, ValueHash: it.Vhash}, pos)
		}
		// The history tree is listed, "updated" and dumped at random points of its
		// history (the cached node hashes and counts must not depend on when that
		// happened); at one point it is dumped and loaded into a third tree, which
		// then receives the rest of the history as well.
		bpfx := ref.PrefixString(ref.Digits(uint64(bucket)<<uint(64-4*depth), depth))
		var tree3 *HTree
		var lerr error
		dumpPath := filepath.Join(env.Work, id+".hash")
		loadAt := r.Intn(a.Ops + 1)
		if r.Intn(4) == 0 {
			loadAt = a.Ops
		}
		listEvery := r.Pick(0, 3, 25, 200, 1000)
		midChecks := 0
		midList := func(i int) {
			var p string
			switch r.Intn(4) {
			case 0:
				p = bpfx
			case 1:
				tree.ListTop()
				res.Event("mid_history.listtop", 1)
				return
			default:
				d := ref.Digits(hashes[r.Intn(pool)], 16)
				p = ref.PrefixString(d[:r.Range(depth, minInt(16, depth+height+1))])
			}
			got, err := vfTreeList(tree, p)
			res.Event("mid_history.listings", 1)
			if err != nil {
				res.Violate(id, "c08:listdir-error", fmt.Sprintf("ListDir(%q) at op %d: %v", p, i, err), nil)
				return
			}
			if midChecks < 12 { // compare some of them with the reference of the content at that moment
				midChecks++
				mm := &ref.Merkle{Depth: depth, Height: height}
				for _, it := range content {
					mm.Items = append(mm.Items, it)
				}
				sort.Slice(mm.Items, func(i, j int) bool { return mm.Items[i].Hash < mm.Items[j].Hash })
				var digs []int
				for _, ch := range p {
					digs = append(digs, strings.IndexRune("0123456789abcdef", ch))
				}
				want := mm.List(digs)
				res.Eval(1)
				if d := want.Check(got); d != "" {
					res.Violate(id, "c08:mid-history-listing-vs-reference:"+want.Kind, fmt.Sprintf("prefix %q after %d ops (%d buckets, height %d, list every ~%d ops): %s", p, i, nb, height, listEvery, d), map[string]interface{}{"buckets": nb, "height": height, "bucket": bucket, "pool": pool, "leaves": nLeaves, "ops": a.Ops})
				}
			}
		}
		for i := 0; i <= a.Ops; i++ {
			if i == loadAt {
				tree.dump(dumpPath)
				tree3 = newHTree(depth, bucket, height)
				lerr = tree3.load(dumpPath)
				where := "middle"
				if i == 0 {
					where = "start"
				} else if i == a.Ops {
					where = "end"
				}
				res.Event("dump_load_at."+where, 1)
			}
			if i == a.Ops {
				break
			}
			if listEvery > 0 && r.Intn(listEvery) == 0 {
				midList(i)
			}
			h := hashes[r.Intn(pool)]
			pos := Position{r.Intn(50), uint32(r.Intn(1<<20)) << 8}
			old := content[h]
			switch r.Intn(10) {
			case 0, 1: // delete: tombstone stays in the leaf with a negative version
				if old.Ver > 0 {
					it := ref.MItem{Hash: h, Ver: -old.Ver - 1}
					apply(tree, it, pos)
					if tree3 != nil && lerr == nil {
						apply(tree3, it, pos)
					}
					content[h] = it
				}
			case 2: // tombstone replay after a restart removes the entry
				ki := NewKeyInfoFromBytes([]byte("x"), h, false)
				tree.remove(ki, Position{-1, 0})
				if tree3 != nil && lerr == nil {
					ki3 := NewKeyInfoFromBytes([]byte("x"), h, false)
					tree3.remove(ki3, Position{-1, 0})
				}
				delete(content, h)
			default:
				v := old.Ver
				if v < 0 {
					v = -v
				}
				it := ref.MItem{Hash: h, Ver: v + 1, Vhash: uint16(r.Uint64())}
				apply(tree, it, pos)
				if tree3 != nil && lerr == nil {
					apply(tree3, it, pos)
				}
				content[h] = it
			}
		}
		m := &ref.Merkle{Depth: depth, Height: height}
		var live int
		for _, it := range content {
			m.Items = append(m.Items, it)
			if it.Ver > 0 {
				live++
			}
		}
		sort.Slice(m.Items, func(i, j int) bool { return m.Items[i].Hash < m.Items[j].Hash })
		// second tree: same final content, other history (sorted order, a redundant first version)
		tree2 := newHTree(depth, bucket, height)
		for _, it := range m.Items {
			if it.Ver > 0 && r.Bool() {
				apply(tree2, ref.MItem{Hash: it.Hash, Ver: 1, Vhash: uint16(r.Uint64())}, Position{0, 0})
			}
		}
		for _, i := range r.Perm(len(m.Items)) {
			apply(tree2, m.Items[i], Position{1, uint32(i) << 8})
		}
		// third tree: dumped + loaded at op loadAt (see above), then given the rest of the history
		// prefixes
		bp := ref.PrefixString(ref.Digits(uint64(bucket)<<uint(64-4*depth), depth))
		prefixes := map[string]bool{bp: true}
		for _, h := range hashes[:minInt(len(hashes), 60)] {
			d := ref.Digits(h, 16)
			for l := depth; l <= 16; l++ {
				if l <= leafDigits+1 || r.Intn(4) == 0 {
					prefixes[ref.PrefixString(d[:l])] = true
				}
			}
		}
		for i := 0; i < 10; i++ {
			d := ref.Digits(r.Uint64(), 16)
			copy(d, ref.Digits(uint64(bucket)<<uint(64-4*depth), depth))
			prefixes[ref.PrefixString(d[:r.Range(depth, 16)])] = true
		}
		replay := map[string]interface{}{"buckets": nb, "height": height, "bucket": bucket, "pool": pool, "leaves": nLeaves, "ops": a.Ops, "load_at": loadAt, "list_every": listEvery}
		maxLeaf := 0
		for _, lp := range leafPrefixes {
			n := 0
			for _, it := range m.Items {
				if it.Hash>>uint(64-4*leafDigits) == lp>>uint(64-4*leafDigits) {
					n++
				}
			}
			if n > maxLeaf {
				maxLeaf = n
			}
		}
		for p := range prefixes {
			res.Eval(1)
			var digs []int
			for _, ch := range p {
				digs = append(digs, strings.IndexRune("0123456789abcdef", ch))
			}
			want := m.List(digs)
			got, err := vfTreeList(tree, p)
			if err != nil {
				res.Violate(id, "c08:listdir-error", fmt.Sprintf("ListDir(%q): %v", p, err), replay)
				continue
			}
			if d := want.Check(got); d != "" {
				res.Violate(id, "c08:listing-vs-reference:"+want.Kind, fmt.Sprintf("prefix %q (%d buckets, height %d, %d live of %d entries): %s", p, nb, height, live, len(m.Items), d), replay)
				continue
			}
			got2, _ := vfTreeList(tree2, p)
			if want.Kind == "nodes" {
				if !bytes.Equal(got, got2) {
					res.Violate(id, "c08:history-dependent:nodes", fmt.Sprintf("prefix %q: two trees with the same content list different node lines:\n%s\n--\n%s", p, got, got2), replay)
				}
			} else if d := want.Check(got2); d != "" {
				res.Violate(id, "c08:history-dependent:items", fmt.Sprintf("prefix %q: second tree (same content, other history): %s", p, d), replay)
			}
			if lerr == nil {
				got3, _ := vfTreeList(tree3, p)
				if want.Kind == "nodes" && !bytes.Equal(got, got3) || want.Kind != "nodes" && vfSortedLines(got) != vfSortedLines(got3) {
					res.Violate(id, "c08:dump-load-differs", fmt.Sprintf("prefix %q: listing after dump+load differs:\n%s\n--\n%s", p, got, got3), replay)
				}
			}
			lvl := "below-leaf"
			if len(p) < leafDigits {
				lvl = "inner"
			} else if len(p) == leafDigits {
				lvl = "leaf"
			}
			res.Seen(fmt.Sprintf("tree/%s/%s/h%d/b%d/maxleaf=%s", want.Kind, lvl, height, nb, vfLeafClass(maxLeaf)))
			res.Event("prefixes."+want.Kind, 1)
		}
		if lerr != nil {
			res.Violate(id, "c08:load-error", "load of a freshly dumped tree failed: "+lerr.Error(), replay)
		}
		tree.release()
		tree2.release()
		tree3.release()
		res.Event("trees", 1)
		res.Event("leafpop."+vfLeafClass(maxLeaf), 1)
		if c < 2 {
			res.Sample(map[string]interface{}{"case": id, "buckets": nb, "height": height, "entries": len(m.Items), "live": live, "max_leaf_population": maxLeaf, "prefixes": len(prefixes)})
		}
	}
}

func vfLeafClass(n int) string {
	switch {
	case n < 100:
		return "<100"
	case n < 256:
		return "100-255"
	}
	return ">=256"
}
