//go:build verif
// +build verif

package store

import (
	"os"

	"github.com/douban/gobeansdb/config"
)

// VFConfig is the store configuration of one harness run (numbers, not the
// string forms of the yaml file).
type VFConfig struct {
	NumBucket     int
	Served        []int // bucket ids served; nil = all
	TreeHeight    int
	CheckVHash    bool
	DataFileMax   int64
	SplitCap      int64
	IndexInterval int64
	BodyInC       int64
	BodyMax       int64
	MergeInterval int
	NoMerged      bool
	TreeDump      int
	BodyBig       int64 // protocol: sets above this size may be refused when the flush buffer is large
	FlushMax      int64
	MaxReq        int
	FlushInterval int // seconds: rate limit of the periodic (non-forced) flush; 0 = every call flushes
	TimeoutMS     int // protocol: receive / process timeout (0 = one hour, so that it never fires)
}

func (c *VFConfig) fill() {
	if c.NumBucket == 0 {
		c.NumBucket = 16
	}
	if c.TreeHeight == 0 {
		c.TreeHeight = 3
	}
	if c.DataFileMax == 0 {
		c.DataFileMax = 4000 << 20
	}
	if c.SplitCap == 0 {
		c.SplitCap = 1 << 20
	}
	if c.IndexInterval == 0 {
		c.IndexInterval = 4 << 10
	}
	if c.BodyMax == 0 {
		c.BodyMax = 50 << 20
	}
	if c.MergeInterval == 0 {
		c.MergeInterval = 1
	}
	if c.TreeDump == 0 {
		c.TreeDump = 3
	}
}

// VFApplyConfig installs cfg as the process-wide store configuration with the
// given home directory (created when missing).
func VFApplyConfig(cfg VFConfig, home string) {
	cfg.fill()
	Conf.InitDefault()
	Conf.Init()
	Conf.Home = home
	Conf.NumBucket = cfg.NumBucket
	Conf.BucketsStat = make([]int, cfg.NumBucket)
	if cfg.Served == nil {
		for i := range Conf.BucketsStat {
			Conf.BucketsStat[i] = 1
		}
	} else {
		for _, b := range cfg.Served {
			Conf.BucketsStat[b] = 1
		}
	}
	Conf.BucketsHex = nil
	Conf.TreeHeight = cfg.TreeHeight
	Conf.TreeDump = cfg.TreeDump
	Conf.CheckVHash = cfg.CheckVHash
	Conf.DataFileMax = cfg.DataFileMax
	Conf.SplitCap = cfg.SplitCap
	Conf.IndexIntervalSize = cfg.IndexInterval
	Conf.MergeInterval = cfg.MergeInterval
	Conf.NoMerged = cfg.NoMerged
	Conf.FlushInterval = cfg.FlushInterval
	Conf.FlushWake = 0
	Conf.NotCompress = map[string]bool{"audio/wave": true, "audio/mpeg": true}
	Conf.InitTree()
	config.MCConf = config.DefaultMCConfig
	config.MCConf.BodyMax = cfg.BodyMax
	config.MCConf.BodyBig = 1 << 20
	if cfg.BodyBig > 0 {
		config.MCConf.BodyBig = cfg.BodyBig
	}
	config.MCConf.BodyInC = cfg.BodyInC
	config.MCConf.FlushMax = 100 << 20
	if cfg.FlushMax > 0 {
		config.MCConf.FlushMax = cfg.FlushMax
	}
	config.MCConf.TimeoutMS = 3600 * 1000
	if cfg.TimeoutMS > 0 {
		config.MCConf.TimeoutMS = cfg.TimeoutMS
	}
	config.MCConf.MaxReq = 16
	if cfg.MaxReq > 0 {
		config.MCConf.MaxReq = cfg.MaxReq
	}
	config.MCConf.MaxKeyLen = 250
	if home != "" {
		os.MkdirAll(home, 0755)
	}
}

func configBodyMax() int64 { return config.MCConf.BodyMax }
