//go:build verif
// +build verif

package store

import (
	"fmt"
	"io/ioutil"
	"os"
	"path/filepath"
	"sort"
	"strings"

	"github.com/douban/gobeansdb/cmem"
	"verif/ref"
)

// Helpers exported to the harness of package gobeansdb. They only read or call
// what the store itself exposes internally; none of them changes behaviour.

func VFSetHashFunc(f func([]byte) uint64) {
	if f == nil {
		getKeyHash = getKeyHashDefalut
	} else {
		getKeyHash = f
	}
}

func VFKeyHash(key []byte) uint64 { return getKeyHash(key) }

func VFFlush(s *HStore, force bool) { s.flushdatas(force) }

// VFDumpHints is the body of one round of the periodic HintDumper loop.
func VFDumpHints(s *HStore) {
	for _, bkt := range s.buckets {
		if bkt.State == BUCKET_STAT_READY {
			bkt.hints.dumpAndMerge(false)
		}
	}
}

func VFBucketOf(key string) int {
	ki := NewKeyInfoFromBytes([]byte(key), getKeyHash([]byte(key)), false)
	return ki.BucketID
}

func VFReadyBuckets(s *HStore) (ids []int) {
	for i, b := range s.buckets {
		if b.State == BUCKET_STAT_READY {
			ids = append(ids, i)
		}
	}
	return
}

func VFBucketHome(s *HStore, id int) string { return s.buckets[id].Home }

// VFChunk describes one data file of a bucket as the store sees it.
type VFChunk struct {
	ID          int
	Size        uint32
	WritingHead uint32
	Buffered    int
	DiskSize    int64
}

func VFChunks(s *HStore, bucket int) (head int, chunks []VFChunk) {
	bkt := s.buckets[bucket]
	if bkt.datas == nil {
		return
	}
	head = bkt.datas.newHead
	for i := 0; i <= head && i < MAX_NUM_CHUNK; i++ {
		dc := &bkt.datas.chunks[i]
		dc.Lock()
		c := VFChunk{ID: i, Size: dc.size, WritingHead: dc.writingHead, Buffered: len(dc.wbuf), DiskSize: -1}
		dc.Unlock()
		if st, err := os.Stat(dc.path); err == nil {
			c.DiskSize = st.Size()
		}
		if c.Size > 0 || c.DiskSize >= 0 || c.Buffered > 0 {
			chunks = append(chunks, c)
		}
	}
	return
}

// VFLegalRanges enumerates every resolved (begin,end) the store's own range
// check accepts for the bucket (noGCDays = 0), each with one argument pair
// (argB,argE) that resolves to it.
func VFLegalRanges(s *HStore, bucket int) (ranges [][4]int) {
	bkt := s.buckets[bucket]
	head := bkt.datas.newHead
	seen := map[[2]int]bool{}
	for b := 0; b <= head; b++ {
		for e := b; e <= head; e++ {
			rb, re, err := bkt.gcCheckRange(b, e, 0)
			if err == nil && !seen[[2]int{rb, re}] {
				seen[[2]int{rb, re}] = true
				ranges = append(ranges, [4]int{rb, re, b, e})
			}
		}
	}
	sort.Slice(ranges, func(i, j int) bool {
		if ranges[i][0] != ranges[j][0] {
			return ranges[i][0] < ranges[j][0]
		}
		return ranges[i][1] < ranges[j][1]
	})
	return
}

// VFGCDirect runs one pass synchronously through the GC manager (the same
// function HStore.GC spawns) and returns a copy of its state.
func VFGCDirect(s *HStore, bucket, begin, end int, merge bool) GCState {
	bkt := s.buckets[bucket]
	s.gcMgr.gc(bkt, begin, end, merge)
	return bkt.GCHistory[len(bkt.GCHistory)-1]
}

// VFTreeEntry is a mem-only lookup (tree or collision table, as get does).
func VFTreeEntry(s *HStore, key string) (ver int32, vhash uint16, chunk int, offset uint32, found bool) {
	ki := &KeyInfo{Key: []byte(key), StringKey: key}
	p, pos, err := s.Get(ki, true)
	if err != nil || p == nil {
		return
	}
	return p.Ver, p.ValueHash, pos.ChunkID, pos.Offset, true
}

// VFRecordInfo classifies where the current record of key lives and whether it
// is stored compressed, by looking at the write buffer and the file bytes.
func VFRecordInfo(s *HStore, key string) (residence string, compressed bool) {
	ki := &KeyInfo{Key: []byte(key), StringKey: key}
	ki.KeyHash = getKeyHash(ki.Key)
	ki.Prepare()
	bkt := s.buckets[ki.BucketID]
	if bkt.State != BUCKET_STAT_READY {
		return "unserved", false
	}
	var pos Position
	if hintit, _ := bkt.hints.collisions.get(ki.KeyHash, ki.StringKey); hintit != nil {
		pos = hintit.Pos
	} else {
		_, p, found := bkt.htree.get(ki)
		if !found {
			return "absent", false
		}
		pos = p
	}
	dc := &bkt.datas.chunks[pos.ChunkID]
	head := bkt.datas.newHead
	dc.Lock()
	for _, w := range dc.wbuf {
		if w.pos.Offset == pos.Offset {
			flag := w.rec.Payload.Flag
			dc.Unlock()
			if pos.ChunkID == head {
				return "buffer", flag&FLAG_COMPRESS != 0
			}
			return "buffer-rotated", flag&FLAG_COMPRESS != 0
		}
	}
	dc.Unlock()
	residence = "file-rotated"
	if pos.ChunkID == head {
		residence = "file-head"
	}
	f, err := os.Open(dc.path)
	if err != nil {
		return residence + "-unreadable", false
	}
	defer f.Close()
	var h [24]byte
	if _, err := f.ReadAt(h[:], int64(pos.Offset)); err != nil {
		return residence + "-unreadable", false
	}
	flag := uint32(h[8]) | uint32(h[9])<<8 | uint32(h[10])<<16 | uint32(h[11])<<24
	return residence, flag&ref.FlagCompress != 0
}

// VFIndexFiles lists the derived index files of a bucket directory.
func VFIndexFiles(home string) (files []string) {
	ents, _ := ioutil.ReadDir(home)
	for _, e := range ents {
		n := e.Name()
		if strings.HasSuffix(n, ".idx.s") || strings.HasSuffix(n, ".idx.m") || strings.HasSuffix(n, ".idx.hash") {
			files = append(files, n)
		}
	}
	sort.Strings(files)
	return
}

// VFCopyDir copies a directory tree (regular files and directories).
func VFCopyDir(src, dst string) error {
	return filepath.Walk(src, func(p string, info os.FileInfo, err error) error {
		if err != nil {
			return err
		}
		rel, _ := filepath.Rel(src, p)
		target := filepath.Join(dst, rel)
		if info.IsDir() {
			return os.MkdirAll(target, 0755)
		}
		b, err := ioutil.ReadFile(p)
		if err != nil {
			return err
		}
		return ioutil.WriteFile(target, b, 0644)
	})
}

func VFListDir(s *HStore, path string) ([]byte, error) {
	ki := &KeyInfo{StringKey: path, Key: []byte(path), KeyIsPath: true}
	return s.ListDir(ki)
}

func VFDescribeChunks(s *HStore, bucket int) string {
	head, cs := VFChunks(s, bucket)
	var parts []string
	for _, c := range cs {
		parts = append(parts, fmt.Sprintf("%d:size=%d,disk=%d,buf=%d", c.ID, c.Size, c.DiskSize, c.Buffered))
	}
	return fmt.Sprintf("head=%d [%s]", head, strings.Join(parts, " "))
}

func VFSetSecsBeforeDump(n int64) { SecsBeforeDump = n }

// VFGCHistoryLen and VFGCState give access to the per-bucket GC records.
func VFGCHistoryLen(s *HStore, bucket int) int   { return len(s.buckets[bucket].GCHistory) }
func VFGCState(s *HStore, bucket, i int) GCState { return s.buckets[bucket].GCHistory[i] }

// VFSetMergeChan mimics what HStore.HintDumper does when it starts: with the
// channel set, a writer that fills a hint split signals the dumper instead of
// dumping the split itself.
func VFSetMergeChan(on bool) {
	if on {
		mergeChan = make(chan int, 2)
	} else {
		mergeChan = nil
	}
}

// VFCollisionRoute tells through which index structure a get of key would be
// served right now (without performing it): the collision table, the key's own
// record behind the shared tree slot, a hint lookup because the slot belongs to
// a sibling with the same hash, or nothing. It only reads.
func VFCollisionRoute(s *HStore, key string) string {
	ki := &KeyInfo{Key: []byte(key), StringKey: key}
	ki.KeyHash = getKeyHash(ki.Key)
	if ki.Prepare() != nil {
		return "invalid-key"
	}
	bkt := s.buckets[ki.BucketID]
	if bkt.State != BUCKET_STAT_READY {
		return "unserved"
	}
	if hintit, _ := bkt.hints.collisions.get(ki.KeyHash, ki.StringKey); hintit != nil {
		// GC keeps a record only while the hash still has a tree slot; a slot
		// removed by a sibling's replayed tombstone is part of the mechanism
		slot := "/slot"
		if _, _, found := bkt.htree.get(ki); !found {
			slot = "/no-slot"
		}
		if hintit.Ver < 0 {
			return "table-tombstone" + slot
		}
		return "table" + slot
	}
	_, pos, found := bkt.htree.get(ki)
	if !found {
		return "no-slot"
	}
	rec, _, err := bkt.datas.GetRecordByPos(pos)
	if err != nil || rec == nil {
		return "slot-unreadable"
	}
	own := string(rec.Key) == key
	sameHash := getKeyHash(rec.Key) == ki.KeyHash
	cmem.DBRL.GetData.SubSizeAndCount(rec.Payload.CArray.Cap)
	rec.Payload.CArray.Free()
	switch {
	case own:
		return "slot-own"
	case !sameHash:
		return "slot-other-hash"
	}
	it, _, err := bkt.hints.getItem(ki.KeyHash, ki.StringKey, false)
	switch {
	case err != nil:
		return "slot-sibling/hint-error"
	case it == nil:
		return "slot-sibling/hint-none"
	case it.Ver < 0:
		return "slot-sibling/hint-tombstone"
	}
	return "slot-sibling/hint-found"
}

// VFBufferedRecords returns the number of records in the write buffers of a bucket.
func VFBufferedRecords(s *HStore, bucket int) (n int) {
	ds := s.buckets[bucket].datas
	for i := 0; i <= ds.newHead; i++ {
		dc := &ds.chunks[i]
		dc.Lock()
		n += len(dc.wbuf)
		dc.Unlock()
	}
	return
}
