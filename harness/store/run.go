//go:build verif
// +build verif

package store

import (
	"github.com/douban/gobeansdb/loghub"
	"verif/vfc"
)

func VFRun(env *vfc.Env) {
	VFQuietLogs()
	switch env.Mode {
	case "store.c16":
		vfC16(env)
	case "store.c09":
		vfC09(env)
	case "store.c08tree":
		vfC08Tree(env)
	case "store.c14":
		vfC14(env)
	default:
		env.Res.Inconc("unknown mode " + env.Mode)
	}
}

// VFQuietLogs keeps only FATAL log lines (Fatalf must keep its os.Exit).
func VFQuietLogs() {
	loghub.ErrorLogger.SetLevel(loghub.FATAL)
}
