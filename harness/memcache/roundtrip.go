//go:build verif
// +build verif

package memcache

import (
	"bufio"
	"bytes"
	"fmt"
	"strconv"

	"github.com/douban/gobeansdb/cmem"
	"github.com/douban/gobeansdb/config"
	"github.com/douban/gobeansdb/loghub"
	"verif/proto"
	"verif/ref"
	"verif/vfc"
)

type vfRTArgs struct{ Cases int }

// VFRun: serialising a request or reply and parsing it back yields the same
// request or reply (map order ignored).
func VFRun(env *vfc.Env) {
	loghub.ErrorLogger.SetLevel(loghub.FATAL)
	var a vfRTArgs
	env.ParseArgs(&a)
	res := env.Res
	config.MCConf.BodyMax = 1 << 20
	config.MCConf.BodyInC = 0
	InitTokens()
	r := ref.NewRand(env.Seed)
	keys := proto.GenProtoKeys(r, 20)
	for i := 0; i < a.Cases; i++ {
		id := fmt.Sprintf("rt-%d", i)
		if !env.Want(id) {
			continue
		}
		res.Eval(1)
		if i%2 == 0 {
			// request
			verbs := []string{"get", "gets", "delete", "quit", "version", "stats", "flush_all", "set", "add", "replace", "cas", "prepend", "append", "incr", "decr"}
			req := &Request{Cmd: verbs[r.Intn(len(verbs))], NoReply: r.Intn(4) == 0}
			switch req.Cmd {
			case "get", "gets":
				for n := r.Range(1, 5); n > 0; n-- {
					req.Keys = append(req.Keys, keys[r.Intn(len(keys))])
				}
				req.NoReply = false
			case "delete":
				req.Keys = []string{keys[r.Intn(len(keys))]}
			case "quit", "version", "flush_all":
				req.NoReply = false
			case "stats":
				req.NoReply = false
				if r.Bool() {
					req.Keys = []string{"cmd_get"}
				}
			case "incr", "decr":
				req.Keys = []string{keys[r.Intn(len(keys))]}
				req.Item = &Item{}
				req.Item.Body = []byte(strconv.Itoa(r.Range(0, 100000)))
			default:
				req.Keys = []string{keys[r.Intn(len(keys))]}
				req.Item = &Item{Flag: r.Intn(1 << 30), Exptime: r.Intn(100)}
				if req.Cmd == "cas" {
					req.Item.Cas = r.Intn(100000)
				}
				req.Item.Body = proto.GenBody(r, 2000)
			}
			res.Begin(id, req.String())
			var buf bytes.Buffer
			if err := req.Write(&buf); err != nil {
				res.Violate(id, "c11:roundtrip-request-write", fmt.Sprintf("%s: %v", req, err), nil)
				continue
			}
			back := &Request{}
			err := back.Read(bufio.NewReader(bytes.NewReader(buf.Bytes())))
			if back.Working {
				RL.Put(back)
			}
			diff := ""
			switch {
			case err != nil:
				diff = "parse error: " + err.Error()
			case back.Cmd != req.Cmd:
				diff = "cmd " + back.Cmd
			case fmt.Sprint(back.Keys) != fmt.Sprint(req.Keys):
				diff = fmt.Sprintf("keys %q", back.Keys)
			case back.NoReply != req.NoReply:
				diff = fmt.Sprintf("noreply %v", back.NoReply)
			case (back.Item == nil) != (req.Item == nil):
				diff = "item presence"
			case req.Item != nil && !bytes.Equal(back.Item.Body, req.Item.Body):
				diff = "body: " + ref.DiffBytes(back.Item.Body, req.Item.Body)
			case req.Item != nil && req.Cmd != "incr" && req.Cmd != "decr" && (back.Item.Flag != req.Item.Flag || back.Item.Exptime != req.Item.Exptime || back.Item.Cas != req.Item.Cas):
				diff = fmt.Sprintf("flag/exptime/cas %d/%d/%d", back.Item.Flag, back.Item.Exptime, back.Item.Cas)
			}
			if back.Item != nil {
				switch back.Cmd {
				case "incr", "decr":
					cmem.DBRL.SetData.SubCount(1)
				default:
					if err == nil {
						cmem.DBRL.SetData.SubSizeAndCount(back.Item.CArray.Cap)
						back.Item.CArray.Free()
					}
				}
			}
			if diff != "" {
				res.Violate(id, "c11:roundtrip-request:"+req.Cmd, fmt.Sprintf("request %s written as %q parses back differently: %s", req, trunc(buf.Bytes()), diff), nil)
			}
			res.Seen("roundtrip/request/" + req.Cmd)
		} else {
			statuses := []string{"VALUE", "STORED", "NOT_STORED", "DELETED", "NOT_FOUND", "OK", "END", "ERROR", "SERVER_ERROR", "CLIENT_ERROR", "INCR"}
			resp := &Response{Status: statuses[r.Intn(len(statuses))]}
			switch resp.Status {
			case "VALUE":
				resp.Cas = r.Bool()
				resp.Items = map[string]*Item{}
				for n := r.Range(0, 4); n > 0; n-- {
					it := &Item{Flag: r.Intn(1 << 30)}
					if resp.Cas {
						it.Cas = r.Intn(100000)
					}
					it.Body = proto.GenBody(r, 2000)
					resp.Items[keys[r.Intn(len(keys))]] = it
				}
			case "SERVER_ERROR", "CLIENT_ERROR":
				resp.Msg = "message"
			case "INCR":
				resp.Msg = strconv.Itoa(r.Range(0, 1000000))
			}
			res.Begin(id, resp.String())
			var buf bytes.Buffer
			resp.Write(&buf)
			back := &Response{}
			err := back.Read(bufio.NewReader(bytes.NewReader(buf.Bytes())))
			diff := ""
			wantStatus := resp.Status
			if resp.Status == "VALUE" {
				wantStatus = "END" // a value reply ends with END
			}
			switch {
			case err != nil:
				diff = "parse error: " + err.Error()
			case back.Status != wantStatus:
				diff = "status " + back.Status
			case back.Msg != resp.Msg:
				diff = "msg " + back.Msg
			case resp.Status == "VALUE" && len(back.Items) != len(resp.Items):
				diff = fmt.Sprintf("%d items", len(back.Items))
			}
			if diff == "" && resp.Status == "VALUE" {
				for k, it := range resp.Items {
					b := back.Items[k]
					if b == nil || !bytes.Equal(b.Body, it.Body) || b.Flag != it.Flag || b.Cas != it.Cas {
						diff = fmt.Sprintf("item %q differs", k)
					}
				}
			}
			back.CleanBuffer()
			if diff != "" {
				res.Violate(id, "c11:roundtrip-response:"+resp.Status, fmt.Sprintf("response %s written as %q parses back differently: %s", resp, trunc(buf.Bytes()), diff), nil)
			}
			res.Seen("roundtrip/response/" + resp.Status)
		}
	}
	if !cmem.DBRL.IsZero() {
		res.Note("accounting after the round trips: %+v %+v", cmem.DBRL.GetData, cmem.DBRL.SetData)
	}
	res.Sample(map[string]interface{}{"round_trips": a.Cases})
}

func trunc(b []byte) []byte {
	if len(b) > 160 {
		return b[:160]
	}
	return b
}
