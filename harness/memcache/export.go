//go:build verif
// +build verif

package memcache

import "net"

// VFNewServerConn exposes the unexported constructor the TCP server uses for
// every accepted connection.
func VFNewServerConn(conn net.Conn) *ServerConn { return newServerConn(conn) }

// VFTokens returns how many request tokens are available and the capacity.
func VFTokens() (avail, capacity int) {
	if RL == nil {
		return 0, 0
	}
	return len(RL.Chan), cap(RL.Chan)
}
