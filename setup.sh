#!/bin/bash
# One-time setup after a fresh restore: build the driver and warm the build
# cache for the three child variants (plain, race, asan). Offline only.
cd "$(dirname "$0")" || exit 1
export GOFLAGS=-mod=mod GOPROXY=off GOSUMDB=off GOTOOLCHAIN=local CGO_ENABLED=1
mkdir -p build evidence replays
go build -o build/vcheck ./cmd/vcheck || exit 1
./build/vcheck build plain race asan || exit 1
echo setup done
