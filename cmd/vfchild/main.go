// vfchild is the instrumented child process. It is linked against the
// repository's packages built with -tags verif; the harness files are overlaid
// into those packages by the driver, so every mode runs the real code.
package main

import (
	"flag"
	"fmt"
	"os"
	"strings"

	"github.com/douban/gobeansdb/gobeansdb"
	"github.com/douban/gobeansdb/memcache"
	"github.com/douban/gobeansdb/quicklz"
	"github.com/douban/gobeansdb/store"
	"verif/vfc"
)

func main() {
	mode := flag.String("mode", "", "harness mode")
	seed := flag.Uint64("seed", 1, "seed")
	args := flag.String("args", "{}", "mode arguments (JSON)")
	out := flag.String("out", "", "result file")
	work := flag.String("work", "", "scratch directory")
	only := flag.String("only", "", "run only this case")
	flag.Parse()
	if *work == "" {
		d, _ := os.MkdirTemp("", "vfchild")
		*work = d
	}
	os.MkdirAll(*work, 0755)
	res := vfc.NewResult(*mode, *seed, *args, *out)
	env := &vfc.Env{Mode: *mode, Seed: *seed, Args: *args, Work: *work, Only: *only, Res: res}
	switch {
	case strings.HasPrefix(*mode, "store."):
		store.VFRun(env)
	case strings.HasPrefix(*mode, "db."):
		gobeansdb.VFRun(env)
	case strings.HasPrefix(*mode, "mc."):
		memcache.VFRun(env)
	case strings.HasPrefix(*mode, "qlz."):
		quicklz.VFRun(env)
	default:
		fmt.Fprintln(os.Stderr, "unknown mode", *mode)
		os.Exit(3)
	}
	if err := res.Write(); err != nil {
		fmt.Fprintln(os.Stderr, "cannot write result:", err)
		os.Exit(4)
	}
}
