package main

import (
	"encoding/json"
	"strings"

	"verif/ref"
)

func js(v interface{}) string {
	b, _ := json.Marshal(v)
	return string(b)
}

var props = map[string]*PropSpec{}

func register(p *PropSpec) { props[p.ID] = p }

func init() {
	register(&PropSpec{
		ID: "C16", Level: "exploration",
		Rule:        "differential test of the store's key hash, fnv1a, murmur, value hash and CRC-32 against independently written references (own signed FNV-1a, own MurmurHash3-x86-32, hash/crc32 + bitwise CRC, all validated against published vectors at start-up); inputs: all 1- and 2-byte strings, every length 0..N in four content classes, large CRC inputs, the CRC field of encoded records. distinct = (content class x length class) signatures observed",
		Assumptions: []string{"the published MurmurHash3/FNV-1a/CRC-32 test vectors embedded in ref/vectors.go are correct", "hash/crc32 (Go standard library) implements IEEE CRC-32"},
		Plan: func(tier string, seed uint64) []Job {
			if tier == "thorough" {
				var jobs []Job
				jobs = append(jobs, Job{Variant: "plain", Mode: "store.c16", Args: js(map[string]interface{}{"Random": 40, "MaxLen": 4096, "Exhaust2": true, "CRCMaxLen": 1 << 20})})
				for i := 0; i < 12; i++ {
					jobs = append(jobs, Job{Variant: "plain", Mode: "store.c16", Args: js(map[string]interface{}{"Random": 400, "MaxLen": 4096, "CRCMaxLen": 1 << 20})})
				}
				jobs = append(jobs, Job{Variant: "asan", Mode: "store.c16", Args: js(map[string]interface{}{"Random": 8, "MaxLen": 4096, "Exhaust2": true, "CRCMaxLen": 1 << 20})})
				return jobs
			}
			return []Job{
				{Variant: "plain", Mode: "store.c16", Args: js(map[string]interface{}{"Random": 8, "MaxLen": 4096, "Exhaust2": true, "CRCMaxLen": 1 << 20})},
				{Variant: "plain", Mode: "store.c16", Args: js(map[string]interface{}{"Random": 16, "MaxLen": 2100, "CRCMaxLen": 1 << 18})},
			}
		},
	})
	register(&PropSpec{
		ID: "C09", Level: "fault_enumeration",
		Rule:        "round trip: random records written through dataStore.AppendRecord+flush and DataStreamWriter, file bytes compared with the reference encoder, then positional and sequential reads; corruption campaign: for every file image <= 4 KB every byte position x {bit flip, 0x00, 0xff} and truncation at every length, sampled positions for larger images, multi-byte damage, zeroed blocks, and ksz/vsz size-field damage (0, 251, +-1, beyond EOF, body_max, > body_max); the reference decoder labels each original record intact/damaged; distinct = (corruption kind x damaged field) classes and record layout classes observed",
		Assumptions: []string{"ref/record.go encodes the documented beansdb record layout", "a 32-bit CRC collision on random damage (2^-32) is not expected within the run"},
		Plan: func(tier string, seed uint64) []Job {
			var jobs []Job
			n, files, per := 14, 1, 24
			if tier == "thorough" {
				n, files, per = 28, 16, 100
			}
			for i := 0; i < n; i++ {
				inC := 0
				if i%2 == 1 {
					inC = 4096
				}
				jobs = append(jobs, Job{Variant: "plain", Mode: "store.c09", Args: js(map[string]interface{}{"RoundTrips": 30, "Files": files, "MaxRecs": 50, "PerFile": per, "BodyInC": inC})})
			}
			asan := 2
			if tier == "thorough" {
				asan = 8
			}
			for i := 0; i < asan; i++ {
				jobs = append(jobs, Job{Variant: "asan", Mode: "store.c09", Args: js(map[string]interface{}{"RoundTrips": 10, "Files": 2, "MaxRecs": 20, "PerFile": 20, "BodyInC": 0})})
			}
			return jobs
		},
	})
	register(&PropSpec{
		ID: "C14", Level: "exploration",
		Rule:        "generated hint item multisets (0..5000 items, key lengths 1..250, hashes incl. 0 and 2^64-1, dense/clustered hashes, same-hash groups, re-sets) written through HintBuffer.Dump and hintFileWriter with index intervals 64..4K; oracles: store reader vs expectation, independent parser of the file bytes, every sparse-index entry points at an item, lookups of present keys and of absent keys (below/between/same-hash-other-key/above/0/max) through loadHintIndex and the in-memory index, k-way merge (1..8 sources, some empty) vs reference merge and collision table; distinct = (item-count class x index-size class x writer) and (absent-lookup kind x index class) and merge shape signatures",
		Assumptions: []string{"ref/hint.go decodes the hint layout as documented in store/hintfile.go comments and constants"},
		Plan: func(tier string, seed uint64) []Job {
			n, cases := 14, 24
			if tier == "thorough" {
				n, cases = 56, 400
			}
			var jobs []Job
			for i := 0; i < n; i++ {
				jobs = append(jobs, Job{Variant: "plain", Mode: "store.c14", Args: js(map[string]interface{}{"Cases": cases, "MaxItems": 5000})})
			}
			return jobs
		},
	})
	register(&PropSpec{
		ID: "C10", Level: "exploration",
		Rule:        "codec level: generated values (10 content classes, sizes 1..4 MB incl. the 256/10K thresholds) through CCompress->DecompressSafe/CDecompressSafe and Compress(level 1,3)->DecompressSafe (+level 3 -> CDecompressSafe); hostile inputs (random bytes, mutated and truncated valid streams, self-consistent headers with random payload and arbitrary claimed size) to both safe decompressors in an asan-instrumented child, each input written to disk before the call; store level (db.c10): values on both sides of every compression decision (record <=/> 256 bytes, 10 KB probe, compressible/incompressible head, client-compressed flag, not-compress content types) set, read from the buffer, after flush and after restarts with all / tree-only / split index files removed; bytes, flags and meta-get fields judged by the reference map, and the value hash in the item listing of the key's leaf compared with the hash of the uncompressed bytes after the set and again for every live key after each restart (tree rebuilt from hints, hints rebuilt from data); distinct = (content class x size class x compressed/stored) and (hostile kind x outcome) signatures",
		Assumptions: []string{"asan instruments quicklz.c (cgo, go build -asan); heap damage that asan's red zones do not see is not detected"},
		Plan: func(tier string, seed uint64) []Job {
			var jobs []Job
			codec, hostile, n := 150, 600, 8
			if tier == "thorough" {
				codec, hostile, n = 1500, 30000, 14
			}
			for i := 0; i < n; i++ {
				jobs = append(jobs, Job{Variant: "asan", Mode: "qlz.c10", Args: js(map[string]interface{}{"Codec": codec / 3, "MaxSize": 1 << 20, "Hostile": hostile})})
				jobs = append(jobs, Job{Variant: "plain", Mode: "qlz.c10", Args: js(map[string]interface{}{"Codec": codec, "MaxSize": 4 << 20, "Hostile": hostile / 4})})
			}
			// store level
			sv, sn, maxVal := 120, 6, 300000
			if tier == "thorough" {
				sv, sn, maxVal = 1500, 14, 4<<20
			}
			r := ref.NewRand(seed ^ 0xc10)
			for i := 0; i < sn; i++ {
				c := StoreCfg{NumBucket: r.Pick(1, 16), TreeHeight: 3, DataFileMax: int64(r.Pick(64, 4000<<12)) * 256, SplitCap: int64(r.Pick(64, 1<<20)), IndexInterval: 4096, BodyInC: int64(r.Pick(0, 4096)), BodyMax: 8 << 20}
				if c.NumBucket == 16 {
					c.Served = []int{r.Intn(16), r.Intn(16)}
				}
				variant := "plain"
				if i == 0 {
					variant = "asan"
				}
				jobs = append(jobs, Job{Variant: variant, Mode: "db.c10", Args: js(map[string]interface{}{"Cfg": c, "Values": sv, "MaxVal": maxVal})})
			}
			return jobs
		},
	})
	register(&PropSpec{
		ID: "C01", Level: "exploration",
		Rule:        "generated single-client histories (set with rev 0 / larger / equal / smaller, delete, incr in all its classes, get, multi-get with duplicates and misses, meta-get) over 4..24 keys (lengths 1,2,249,250, bytes >= 0x80, shared prefixes, invalid keys) with values around the 256/512-byte, 4K, 10K and 64K boundaries in 10 content classes, with forced/non-forced flush, hint dump and data-file rotation interleaved; every reply and a get + meta-get after every write, and a sweep of all keys every 25 ops, are compared with the reference map; one child per store configuration from the grid (bucket count x tree height x check_vhash x data-file limit x split capacity x index interval x C-allocation threshold). distinct = (check point x residence {buffer, buffer-rotated, file-head, file-rotated} x compressed/plain x value size class x last maintenance) tuples observed",
		Assumptions: []string{"ref.RefMap states the documented version arithmetic", "incr versions, tombstones after a rebuild and tree-only version moves under check_vhash are adopted from the observation (open dimensions of the property)", "histories are driven through gobeansdb.StorageClient in-process, not through a TCP socket (the text protocol is covered by C11)"},
		Plan: func(tier string, seed uint64) []Job {
			var jobs []Job
			hist, ops := 18, 140
			if tier == "thorough" {
				hist, ops = 60, 300
			}
			for _, c := range configsFor(tier, seed, 12, 96) {
				jobs = append(jobs, Job{Variant: "plain", Mode: "db.c01", Args: js(map[string]interface{}{"Cfg": c, "Histories": hist, "NOps": ops, "MaxVal": 70000, "BigPct": 30, "MaintPct": 12, "InvalidKeyPct": 3, "FullCheckEvery": 25})})
			}
			if tier == "thorough" {
				for i, c := range configsFor(tier, seed+99, 8, 8) {
					_ = i
					jobs = append(jobs, Job{Variant: "asan", Mode: "db.c01", Args: js(map[string]interface{}{"Cfg": c, "Histories": 10, "NOps": 200, "MaxVal": 4 << 20, "BigPct": 50, "MaintPct": 12, "FullCheckEvery": 50})})
				}
			}
			return jobs
		},
	})
	register(&PropSpec{
		ID: "C02", Level: "exploration",
		Rule:        "C01 histories with clean shutdown + reopen at generated positions, repeatedly; at every restart the closed directory is reopened once per index-file subset (all 2^k subsets when k <= 5 index files exist in thorough, otherwise none/all/each kind/singletons/random subsets) and every variant must read back as the reference map (bytes, flags, liveness; versions where the quantifier compares them); a restart is modelled as process exit at the instant Close returns (directory copied, copy opened by a fresh store instance). distinct = (present/removed index-file pattern) and (check point x residence x size x phase) tuples",
		Assumptions: []string{"tombstone versions and tree-only version changes are adopted after a restart, as the property's quantifier states", "a restart inside one process on a copy of the directory is equivalent to a new process (global state is re-initialised by NewHStore); the crash-style variants of C06 use real fresh processes"},
		Plan: func(tier string, seed uint64) []Job {
			var jobs []Job
			hist, ops, variants := 4, 45, "few"
			if tier == "thorough" {
				// (20 histories x 64 configurations with exhaustive index subsets took hours on this VM)
				hist, ops, variants = 3, 80, "exhaustive"
			}
			for i, c := range limitServed(configsFor(tier, seed+2, 14, 20), 2, seed) {
				if i%2 == 1 {
					c.FlushInterval = 60 // as in conf/global.yaml: the periodic flush is rate limited, a forced one (rotation, shutdown) is not
				}
				jobs = append(jobs, Job{Variant: "plain", Mode: "db.c02", Args: js(map[string]interface{}{"Cfg": c, "Histories": hist, "NOps": ops, "MaxVal": 20000, "BigPct": 20, "MaintPct": 22, "Restart": true, "Variants": variants, "FullCheckEvery": 0})})
			}
			if tier == "thorough" {
				// restart at EVERY position of short histories
				for _, c := range limitServed(configsFor(tier, seed+7, 8, 8), 1, seed+7) {
					jobs = append(jobs, Job{Variant: "plain", Mode: "db.c02", Args: js(map[string]interface{}{"Cfg": c, "Histories": 2, "NOps": 36, "MaxVal": 3000, "BigPct": 10, "MaintPct": 15, "Restart": false, "Variants": "sample", "PosSweep": true})})
				}
			}
			sched, nsched, nrace := 30, 3, 1
			if tier == "thorough" {
				sched, nsched, nrace = 120, 8, 3
			}
			for i := 0; i < nsched; i++ {
				jobs = append(jobs, Job{Variant: "plain", Mode: "db.c02sched", Args: js(map[string]interface{}{"Cases": sched, "Cfg": StoreCfg{NumBucket: 1, TreeHeight: 3, BodyMax: 1 << 20, IndexInterval: 512, CheckVHash: i%2 == 1, FlushInterval: []int{0, 60, 60}[i%3]}})})
			}
			for i := 0; i < nrace; i++ {
				jobs = append(jobs, Job{Variant: "race", Mode: "db.c02sched", Args: js(map[string]interface{}{"Cases": sched / 2, "Cfg": StoreCfg{NumBucket: 1, TreeHeight: 3, BodyMax: 1 << 20, IndexInterval: 512}})})
			}
			// the server's own graceful shutdown over loopback TCP (Main's sequence: signal -> Server.Shutdown -> Serve returns -> HStore.Close)
			nserve, cserve := 3, 8
			if tier == "thorough" {
				nserve, cserve = 8, 25
			}
			for i := 0; i < nserve; i++ {
				jobs = append(jobs, Job{Variant: "plain", Mode: "db.c02serve", Args: js(map[string]interface{}{"Cases": cserve})})
			}
			jobs = append(jobs, Job{Variant: "race", Mode: "db.c02serve", Args: js(map[string]interface{}{"Cases": cserve / 2})})
			return jobs
		},
	})
	gcJobs := func(prop string, tier string, seed uint64) []Job {
		var jobs []Job
		hist, ops := 10, 70
		n := 14
		if tier == "thorough" {
			hist, ops, n = 30, 110, 56
		}
		r := ref.NewRand(seed ^ 0x6c)
		for i := 0; i < n; i++ {
			c := StoreCfg{NumBucket: r.Pick(1, 1, 16, 256), TreeHeight: r.Range(2, 4), CheckVHash: r.Intn(3) == 0,
				SplitCap: int64(r.Pick(2, 5, 64, 1<<20)), IndexInterval: int64(r.Pick(64, 512, 4096)), BodyInC: int64(r.Pick(0, 4096))}
			// a record never exceeds half a data file ("limits from a few records"):
			// value <= limit/2 - header - longest key
			switch i % 3 {
			case 0: // small files, destination can never be an earlier file (file limit - body_max < 0)
				c.DataFileMax, c.BodyMax = int64(r.Pick(6, 8, 10))*256, 1<<20
			case 1: // earlier non-full files are eligible destinations
				c.DataFileMax, c.BodyMax = int64(r.Pick(12, 20, 40))*256, 1024
			default:
				c.DataFileMax, c.BodyMax = int64(r.Pick(8, 16))*256, 1024
			}
			maxVal := int(c.DataFileMax/2) - 24 - 250
			if int64(maxVal) > c.BodyMax {
				maxVal = int(c.BodyMax)
			}
			cs := limitServed([]StoreCfg{c}, 1, seed+uint64(i))
			jobs = append(jobs, Job{Variant: "plain", Mode: "db.gc", Args: js(map[string]interface{}{"Cfg": cs[0], "Histories": hist, "NOps": ops, "NKeys": r.Range(4, 10), "MaxVal": maxVal, "BigPct": 0, "MaintPct": 22, "Restart": true, "GC": true, "GCMonitor": true, "Prop": prop, "Damage": i%2 == 1})})
		}
		return jobs
	}
	register(&PropSpec{
		ID: "C03", Level: "exploration",
		Rule:        "C01/C02 histories over 4..10 keys spread across many tiny data files with GC passes over every kind of legal range (selected at run time from the ranges the store's own range check accepts), merge on/off, through HStore.GC (waiting for the gc.exit hook) and through the GC manager directly, followed by further writes, further passes and restarts with index subsets removed; after every pass all keys are read back against the reference map and the reference decoder confirms each live key's record is where the tree points. distinct = (files in range x destination kind {earlier file, in place, fresh} x merge x released x tombstone retained x begin=0) pass signatures plus the read signatures of C01",
		Assumptions: []string{"background goroutines of the store are quiescent before each pass (hook counters); GC beside live traffic is C05", "SecsBeforeDump (a test knob of the store) is -1 so the merge path does not sleep"},
		Keep:        func(sig string) bool { return !strings.HasPrefix(sig, "c18:") },
		Plan:        func(tier string, seed uint64) []Job { return gcJobs("c03", tier, seed) },
	})
	register(&PropSpec{
		ID: "C18", Level: "exploration",
		Rule:        "after every GC pass of the C03 histories (no concurrent writes, non-colliding keys) an independent record scanner reads every surviving file of the collected range and the appended part of an earlier destination: a live-value record must be the key's last accepted write and appear once; a tombstone must be the key's last delete or one retained by the reservation rule (no tree entry before the pass and pass not starting at file 0, observed with a mem-only lookup before the pass); the earlier destination's old prefix and every file outside the range are byte-identical (sha1 before/after); an identical second pass releases nothing and changes no file. distinct = pass signatures as in C03",
		Assumptions: []string{"server-compressed records are expanded with the Go QuickLZ implementation (the store uses the C one) to identify which write a surviving record is"},
		Keep:        func(sig string) bool { return strings.HasPrefix(sig, "c18:") || strings.HasPrefix(sig, "child-died") },
		Plan:        func(tier string, seed uint64) []Job { return gcJobs("c18", tier, seed) },
	})
	register(&PropSpec{
		ID: "C13", Level: "exploration",
		Rule:        "C01/C02/C03 histories in which 1..3 groups of 2..4 keys are forced onto one 64-bit key hash (in-package override of the hash function; all other keys keep their real hash), with overwrites and deletes of every group member, restarts (tree dump present, removed, hint files removed; collision.yaml kept) and GC passes (merge on/off) at generated positions; after every step value, flags and liveness of every key are compared with the reference map (versions only for non-colliding keys). An anomaly of a colliding key is a soft violation whose signature names symptom, phase (gc vs gc-nomerge), what the siblings did since the key's last write, and the index route (collision table / own record behind the shared tree entry / hint lookup behind a sibling's entry / no entry) read from the store before the get; the model is then re-synchronised and later anomalies of that key carry the prefix follow-up:. Only signatures matching an open entry of known_findings.json (four mechanisms, DESIGN section 12) are tolerated. distinct = read signatures (check point x residence x size x phase) observed for runs containing colliding groups",
		Assumptions: []string{"colliding keys are written with revision 0 only (members of a group share one tree slot and version counter)", "collision.yaml is durable state and is never deleted by the harness"},
		Plan: func(tier string, seed uint64) []Job {
			var jobs []Job
			hist, ops, n := 8, 60, 14
			if tier == "thorough" {
				hist, ops, n = 40, 100, 56
			}
			r := ref.NewRand(seed ^ 0xc13)
			for i := 0; i < n; i++ {
				// check_vhash is off: with a shared tree slot the "same value hash" test
				// compares against whichever member owns the slot, which the property does not define
				c := StoreCfg{NumBucket: r.Pick(1, 1, 16), TreeHeight: r.Range(2, 4), CheckVHash: false,
					SplitCap: int64(r.Pick(2, 5, 64, 1<<20)), IndexInterval: int64(r.Pick(64, 512, 4096)), BodyInC: int64(r.Pick(0, 4096))}
				c.DataFileMax, c.BodyMax = int64(r.Pick(8, 12, 20))*256, int64(r.Pick(1024, 1<<20))
				maxVal := int(c.DataFileMax/2) - 24 - 250
				if int64(maxVal) > c.BodyMax {
					maxVal = int(c.BodyMax)
				}
				gc := i%3 != 0
				jobs = append(jobs, Job{Variant: "plain", Mode: "db.c13", Args: js(map[string]interface{}{"Cfg": c, "Histories": hist, "NOps": ops, "NKeys": r.Range(5, 10), "MaxVal": maxVal, "MaintPct": 20, "Restart": true, "GC": gc, "Collide": r.Range(1, 3), "Prop": "c13"})})
			}
			return jobs
		},
	})
	register(&PropSpec{
		ID: "C08", Level: "exploration",
		Rule:        "tree level: random set / tombstone / remove histories on HTree (1, 16, 256 buckets x heights 2..5, hash pools concentrated under 1..40 leaves so that leaf populations cross the 100-item C search and the 256-key listing thresholds); every listing (all prefixes of sampled key hashes from the bucket root to 16 digits, plus random absent prefixes) is compared with the reference recomputation from the final content, with a second tree built from the same content by another history (node level exactly, item level as sets) and with a third tree that was dumped+loaded at a random point of the history and then received the rest of it; the history tree is itself listed / ListTop-ed at random points (rates from every ~3 to every ~1000 ops, up to 12 of those listings per case also compared with the reference of the content at that moment), so cached node hashes and counts may not depend on when the tree was last listed, dumped or loaded; store level (db.c08): k-tuples of real stores driven to the same final content by different histories (sorted / permuted with noise writes, mid-history listings, restart half way or at the end with tree dump loaded or everything rebuilt, GC + tree rebuild, hint merge + two GC passes), every prefix listing compared with the reference and across histories. distinct = (listing kind x level x height x bucket count x leaf-population class)",
		Assumptions: []string{"ref/merkle.go states the documented hash/count/listing rules; it was validated against the unchanged tree in the design phase"},
		Plan: func(tier string, seed uint64) []Job {
			var jobs []Job
			n, cases, ops := 10, 6, 3000
			if tier == "thorough" {
				n, cases, ops = 28, 50, 20000
			}
			for i := 0; i < n; i++ {
				jobs = append(jobs, Job{Variant: "plain", Mode: "store.c08tree", Args: js(map[string]interface{}{"Cases": cases, "Ops": ops})})
			}
			if tier == "thorough" {
				jobs = append(jobs, Job{Variant: "asan", Mode: "store.c08tree", Args: js(map[string]interface{}{"Cases": 10, "Ops": 5000})})
			}
			// store level: k-tuples of real stores driven to the same final content by different histories
			r := ref.NewRand(seed ^ 0xc08)
			ns, scases, maxKeys := 8, 2, 700
			if tier == "thorough" {
				ns, scases, maxKeys = 28, 12, 1500
			}
			for i := 0; i < ns; i++ {
				c := StoreCfg{NumBucket: []int{1, 16, 256}[i%3], TreeHeight: r.Range(2, 4), DataFileMax: int64(r.Pick(64, 256, 1024)) * 256, SplitCap: int64(r.Pick(64, 1<<20)), IndexInterval: 4096, BodyInC: int64(r.Pick(0, 4096)), BodyMax: 4096}
				if c.NumBucket == 256 {
					for j := 0; j < 12; j++ {
						c.Served = append(c.Served, r.Intn(256))
					}
				}
				jobs = append(jobs, Job{Variant: "plain", Mode: "db.c08", Args: js(map[string]interface{}{"Cfg": c, "Cases": scases, "MaxKeys": maxKeys})})
			}
			return jobs
		},
	})
	register(&PropSpec{
		ID: "C15", Level: "exploration",
		Rule:        "real key hash; for 1, 16 and 256 buckets and served-bucket patterns none / one / random subset / all: generated keys are set and flushed one at a time, the reference key hash gives the expected bucket, a before/after inventory (name, size, sha1) of every file below the home directory must show changes only inside the expected bucket's directory (nothing at all for an unserved bucket, where get must miss), the record must be found by the independent scanner in that directory's data files, listings at prefixes shorter than / equal to / longer than the bucket depth must equal the reference aggregate over the served buckets, and all keys read back after a restart with rebuilt indexes. distinct = (bucket count x pattern x served x first digit) and listing signatures",
		Assumptions: []string{"ref.KeyHash (validated by C16) and ref.BucketOf state the routing rule of the property"},
		Plan: func(tier string, seed uint64) []Job {
			keys, pats := 60, 4
			if tier == "thorough" {
				keys, pats = 400, 12
			}
			var jobs []Job
			for _, nb := range []int{1, 16, 256} {
				k := keys
				if nb == 256 {
					k = keys / 2 // the inventory walks 256 directories per key
				}
				jobs = append(jobs, Job{Variant: "plain", Mode: "db.c15", Args: js(map[string]interface{}{"NumBucket": nb, "Keys": k, "Patterns": pats})})
				if tier == "thorough" {
					jobs = append(jobs, Job{Variant: "plain", Mode: "db.c15", Args: js(map[string]interface{}{"NumBucket": nb, "Keys": k, "Patterns": pats})})
				}
			}
			return jobs
		},
	})
	protoCfg := func(i int) StoreCfg {
		return StoreCfg{NumBucket: 16, Served: nil, TreeHeight: 3, DataFileMax: int64([]int{4000 << 12, 64}[i%2]) * 256, SplitCap: 1 << 20, IndexInterval: 4096, BodyInC: int64([]int{0, 4096}[(i/2)%2]), BodyMax: 1 << 20}
	}
	register(&PropSpec{
		ID: "C11", Level: "exploration",
		Rule:        "the real per-connection server loop (memcache.ServerConn.Serve) backed by the real StorageClient/HStore on an instrumented in-memory connection that knows when the server is blocked reading an empty input (logical quiescence, no timeouts). Grammar workload: pipelined streams of well-formed commands (get/gets with 1..6 keys and duplicates, set/add/replace/cas with binary bodies containing CR/LF/NUL, delete, incr, noreply variants, stats, version, verbosity, flush_all, '@' paths of length 0..40, '?'/'??' keys, '@@' hashes, over-long keys, unknown verbs, append/prepend/decr/quit) written in chunkings from 1 byte to everything at once; strict oracle: exactly one syntactically valid reply per command in order (independent reply parser), none for noreply, values and flags equal to the reference map, nothing extra. Mutated workload (truncation at a random byte, bit flips, dropped terminators, bad numbers, long lines, random bytes, body cut short, wrong byte counts) with the weaker oracle: server alive, output syntactically valid, server goroutine returns after the client goes away, a fresh connection works. distinct = (command class x reply kind), mutation kinds, stress shapes",
		Assumptions: []string{"timeout_ms is raised so that the server's own wall-clock RECV/PROCESS_TIMEOUT replies cannot fire on a loaded machine", "an in-memory net.Conn replaces the TCP socket; accept loop and signal handling are not exercised"},
		Keep:        func(sig string) bool { return !strings.HasPrefix(sig, "c12:") },
		Plan: func(tier string, seed uint64) []Job {
			var jobs []Job
			n, streams, mutated := 8, 30, 300
			if tier == "thorough" {
				n, streams, mutated = 28, 300, 8000
			}
			for i := 0; i < n; i++ {
				jobs = append(jobs, Job{Variant: "plain", Mode: "db.proto", Args: js(map[string]interface{}{"Cfg": protoCfg(i), "Prop": "c11", "Streams": streams, "Cmds": 40, "Mutated": mutated, "Conns": 4, "OOM": i == 1, "MaxBody": []int{3000, 3000, 24000, 24000}[i%4]})})
			}
			jobs = append(jobs, Job{Variant: "asan", Mode: "db.proto", Args: js(map[string]interface{}{"Cfg": protoCfg(0), "Prop": "c11", "Streams": streams / 3, "Cmds": 40, "Mutated": mutated / 3, "Conns": 4})})
			jobs = append(jobs, Job{Variant: "plain", Mode: "mc.roundtrip", Args: js(map[string]interface{}{"Cases": mutated * 10})})
			return jobs
		},
	})
	register(&PropSpec{
		ID: "C12", Level: "exploration",
		Rule:        "same server harness as C11. Observed state: cmem.DBRL (GetData, SetData, FlushData, AllocRL: count and size), request tokens available vs capacity, and a registry of live C blocks fed by the cmem alloc/free hooks (detects leak, double free, free of an unknown block; poisons on free). Attribution mode: one command at a time on one connection; after each command the harness waits for logical quiescence (server blocked in Read, buffers flushed, background goroutines done) and asserts that all numbers are zero / all tokens back; a non-zero delta is attributed to that command's class (verb x key state {miss, hit, hit-counter, tombstone, value above/below the C-allocation threshold} x noreply). The same assertion after every mutated stream (error stages: bad header, bad numbers, oversize, short body, bad terminator, connection drop at a random byte) and after concurrent stress on 8 connections (plain, race and asan builds). distinct = attributed command classes + mutation kinds",
		Assumptions: []string{"quiescence is a logical condition (server goroutine blocked reading an empty input, flush done, hook counters balanced), not a deadline"},
		Keep:        func(sig string) bool { return !strings.HasPrefix(sig, "c11:") },
		Plan: func(tier string, seed uint64) []Job {
			var jobs []Job
			n, attrib, mutated, cuts := 8, 350, 150, 3
			if tier == "thorough" {
				n, attrib, mutated, cuts = 28, 5000, 3000, 40
			}
			for i := 0; i < n; i++ {
				jobs = append(jobs, Job{Variant: "plain", Mode: "db.proto", Args: js(map[string]interface{}{"Cfg": protoCfg(i), "Prop": "c12", "Streams": 3, "Cmds": 40, "Mutated": mutated, "Attrib": attrib, "Conns": 8, "CutSweeps": cuts, "MaxBody": []int{3000, 24000, 24000, 3000}[i%4]})})
			}
			// slow clients (body after the server's receive timeout): a job of its own, the only one with a short timeout_ms
			slow := 40
			if tier == "thorough" {
				slow = 400
			}
			jobs = append(jobs, Job{Variant: "plain", Mode: "db.proto", Args: js(map[string]interface{}{"Cfg": protoCfg(2), "Prop": "c12", "Slow": slow, "MaxBody": 24000})})
			jobs = append(jobs, Job{Variant: "plain", Mode: "db.proto", Args: js(map[string]interface{}{"Cfg": protoCfg(0), "Prop": "c12", "Slow": slow, "MaxBody": 24000})})
			jobs = append(jobs, Job{Variant: "race", Mode: "db.proto", Args: js(map[string]interface{}{"Cfg": protoCfg(2), "Prop": "c12", "Streams": 3, "Cmds": 60, "Mutated": 30, "Attrib": 80, "Conns": 8})})
			jobs = append(jobs, Job{Variant: "asan", Mode: "db.proto", Args: js(map[string]interface{}{"Cfg": protoCfg(2), "Prop": "c12", "Streams": 3, "Cmds": 60, "Mutated": 60, "Attrib": 150, "Conns": 8, "MaxBody": 24000})})
			return jobs
		},
	})
	register(&PropSpec{
		ID: "C04", Level: "exploration",
		Rule:        "2..16 client goroutines issue set / delete / get / mem-only get through HStore on 2..8 shared keys over 1..3 buckets while harness-driven equivalents of the Flusher and HintDumper loop bodies run and tiny data-file / hint-split limits force rotations; every operation is recorded at the API boundary with invocation/response ticks of one global atomic counter, values are self-describing (key, writer, sequence, length, regenerable bytes) and freed C buffers are poisoned; per key the history is checked by (a) version rules (distinct dense versions, real-time order of writes, a read returns exactly the value of the write whose version it reports, no read from the future, no stale read, monotone reads, final read = highest version) and (b) porcupine v1.3.0 with a 30-line sequential model; schedule reach = seeded perturbation (yield / short sleep) at the store's hook points plus 9 deterministic park/release orderings (one parks an appender right after its record became visible in the write buffer while a flush already under way writes and frees it); after every history and ordering and a forced flush the four buffer counters must be zero and no C block may be live; the same histories run under the race detector (reports classified by racing source line) and AddressSanitizer. distinct = schedule signatures (hash of the global (role, hook point) event sequence) + targeted orderings",
		Assumptions: []string{"the Go scheduler is not controlled: random-schedule histories are statistical", "races on C memory are visible only through asan and poison-on-free, not the race detector", "check_vhash off; concurrent incr excluded by the property"},
		ReplayReps:  20,
		Plan: func(tier string, seed uint64) []Job {
			var jobs []Job
			np, hp, nr, hr, na, ha := 8, 16, 3, 8, 2, 8
			if tier == "thorough" {
				np, hp, nr, hr, na, ha = 28, 140, 10, 80, 6, 70
			}
			for i := 0; i < np; i++ {
				jobs = append(jobs, Job{Variant: "plain", Mode: "db.c04", Args: js(map[string]interface{}{"Histories": hp, "Level": 1 + i%2, "Targeted": i == 0})})
			}
			for i := 0; i < nr; i++ {
				jobs = append(jobs, Job{Variant: "race", Mode: "db.c04", Args: js(map[string]interface{}{"Histories": hr, "Level": 1 + i%2, "Targeted": i == 0})})
			}
			for i := 0; i < na; i++ {
				jobs = append(jobs, Job{Variant: "asan", Mode: "db.c04", Args: js(map[string]interface{}{"Histories": ha, "Level": 1, "Targeted": i == 0})})
			}
			// the same property at the text-protocol boundary (several connections on the real server loop)
			npp, hpp := 3, 12
			if tier == "thorough" {
				npp, hpp = 12, 100
			}
			for i := 0; i < npp; i++ {
				jobs = append(jobs, Job{Variant: "plain", Mode: "db.c04p", Args: js(map[string]interface{}{"Histories": hpp, "Level": 1 + i%2})})
			}
			jobs = append(jobs, Job{Variant: "race", Mode: "db.c04p", Args: js(map[string]interface{}{"Histories": hpp / 2, "Level": 1})})
			jobs = append(jobs, Job{Variant: "asan", Mode: "db.c04p", Args: js(map[string]interface{}{"Histories": hpp / 2, "Level": 1})})
			return jobs
		},
	})
	register(&PropSpec{
		ID: "C05", Level: "exploration",
		Rule:        "recorder and checkers of C04 plus one GC pass (a range accepted by the store's own range check, merge on/off, optional CancelGC placed at a file boundary hook) over files holding the keys' current records, with 2..8 clients writing, deleting and reading the same keys, the flusher loop and (in a third of the cases) the hint dumper loop; after the pass a full read-back (rule: every key holds the accepted write with the highest version), then Close/NewHStore with an index subset removed and a second read-back against the last acknowledged write per key. Targeted placements: the GC goroutine is parked at each of its per-record steps for a chosen key (after the newest-check, after the copy, inside UpdateHtreePos between its tree get and tree set, after the repoint, before the source is cleared, at a file boundary) while a client sets / deletes / gets that key, x merge on/off; plus two orderings in which the periodic hint dumper is parked inside trydump of the first source chunk (chunk locked) when the pass starts (the pass replaces that hint chunk): the process must survive and the read-backs hold. A read that returns an error while its position is being relocated is counted, not judged. distinct = placement (step x action x merge) and schedule signatures",
		Assumptions: []string{"record size at most half the data-file limit", "the Go scheduler is not controlled in the stress cases"},
		ReplayReps:  10,
		Plan: func(tier string, seed uint64) []Job {
			var jobs []Job
			np, hp, nr, hr, na, ha := 8, 10, 2, 6, 1, 6
			if tier == "thorough" {
				np, hp, nr, hr, na, ha = 28, 60, 8, 40, 4, 40
			}
			for i := 0; i < np; i++ {
				jobs = append(jobs, Job{Variant: "plain", Mode: "db.c05", Args: js(map[string]interface{}{"Histories": hp, "Level": 1 + i%2, "Targeted": i < 2 || tier == "thorough"})})
			}
			for i := 0; i < nr; i++ {
				jobs = append(jobs, Job{Variant: "race", Mode: "db.c05", Args: js(map[string]interface{}{"Histories": hr, "Level": 1, "Targeted": i == 0, "NoDumper": true})})
			}
			for i := 0; i < na; i++ {
				jobs = append(jobs, Job{Variant: "asan", Mode: "db.c05", Args: js(map[string]interface{}{"Histories": ha, "Level": 1, "Targeted": false})})
			}
			return jobs
		},
	})
	register(&PropSpec{
		ID: "C17", Level: "exploration",
		Rule:        "eligibility: stores with 1..6 small data files (first-record timestamps placed 6 hours away from whole-day ages, gaps left by an earlier pass, head unflushed / flushed / empty after restart); HStore.GC is called with (start, end, no_gc_days, merge, pretend) tuples including negatives and out-of-range ids; monitors: before/after inventory (sha1) of the bucket directory and the file-system mutation hook log; oracle: accept/refuse and the resolved (begin,end) equal a reference resolution written from the documented rule, pretend or refused requests change nothing and start no pass, a real pass changes only data files inside [begin,end] plus at most one earlier file that never shrinks, never the head file, and every collected file has a later file whose first record is older than the age limit. single pass: an overlap detector on the gc.enter/gc.exit hooks; two requests back-to-back, concurrently, and with the first parked after its already-running check / inside its pass. distinct = request and pass signatures, schedule kinds",
		Assumptions: []string{"timestamps are placed hours from the no_gc_days boundary, so the verdict does not depend on the wall clock", "record size at most half the data-file limit"},
		Plan: func(tier string, seed uint64) []Job {
			var jobs []Job
			n, stores, tuples, scheds := 10, 6, 30, 6
			if tier == "thorough" {
				n, stores, tuples, scheds = 28, 70, 40, 72
			}
			for i := 0; i < n; i++ {
				jobs = append(jobs, Job{Variant: "plain", Mode: "db.c17", Args: js(map[string]interface{}{"Stores": stores, "Tuples": tuples, "Schedules": scheds})})
			}
			jobs = append(jobs, Job{Variant: "race", Mode: "db.c17", Args: js(map[string]interface{}{"Stores": 2, "Tuples": 10, "Schedules": scheds * 2})})
			return jobs
		},
	})
	register(&PropSpec{
		ID: "C06", Level: "fault_enumeration",
		Rule:        "child A runs a generated single-client history (30..70 ops; sets, deletes, incr, forced / non-forced flush, hint dumps, clean restarts; tiny data-file and hint-split limits so that rotation, the asynchronous post-rotation flush, hint dumps ahead of the flush, tree dumps and removals of old tree dumps all happen) with a file-system hook that copies the bucket directory before and after every hooked mutation (data write(2), tmp create, rename of hint/tree files, remove, truncate, small-file rewrite) under one mutex, plus torn variants of every data write (file cut at every 256-byte boundary inside the written range and at 3 unaligned offsets); for every snapshot a fresh process (child B) opens the copy with NewHStore and dumps what it serves; oracle: an independent scanner computes, per key, the newest intact record in the snapshot's data files; B must serve exactly that (value, flags, version; a miss for a tombstone or no record), or refuse to start only when some data file ends in a partial record. Every mutation boundary of each history is visited (exhaustive per history), histories are sampled. distinct = (mutation kind x index-file state x outcome)",
		Assumptions: []string{"crash model = SIGKILL: completed write(2)/rename/unlink calls survive, nothing is reordered (no power-loss model)", "snapshots are taken while no other hooked mutation is in flight; writes to *.tmp files are not hooked (tmp files are ignored by recovery)", "server-compressed records are expanded with the Go QuickLZ decoder to obtain the durable value"},
		Plan: func(tier string, seed uint64) []Job {
			var jobs []Job
			n, hist, maxs, s2every, max2 := 10, 1, 130, 14, 3
			if tier == "thorough" {
				n, hist, maxs, s2every, max2 = 16, 4, 250, 6, 6 // (42 x 8 histories ran for more than an hour on this VM)
			}
			for i := 0; i < n; i++ {
				jobs = append(jobs, Job{Variant: "plain", Mode: "db.c06", Timeout: 900, Args: js(map[string]interface{}{"Histories": hist, "MaxSnaps": maxs, "Workers": 1, "Stage2Every": s2every, "Max2": max2, "Writes2": 6})})
			}
			// validation of the snapshot model against real SIGKILLs of a running process
			kills, nk := 6, 2
			if tier == "thorough" {
				kills, nk = 25, 6
			}
			for i := 0; i < nk; i++ {
				jobs = append(jobs, Job{Variant: "plain", Mode: "db.c06kill", Timeout: 900, Args: js(map[string]interface{}{"Histories": kills})})
			}
			return jobs
		},
	})
	register(&PropSpec{
		ID: "C07", Level: "fault_enumeration",
		Rule:        "a generated history (overwrites, deletes, rotations over tiny data files, optionally an earlier GC pass) is flushed, closed and reopened, giving the pre-GC model M0; one GC pass over a range accepted by the store's own range check (1..4 small files; destination an earlier file, the first file of the range rewritten in place, or a fresh file; merge on/off) runs with the snapshot handler copying the bucket directory before and after every hooked mutation (each relocated-record write(2), truncate, removal of sources and hint files, hint tmp create/rename, nextgc.txt, collision file) and after every relocated record (gc.append.done hook), plus torn variants of the relocated-record writes; for every snapshot a fresh process must serve exactly M0 (value, flags, version of live keys; a miss for deleted keys) or refuse to start only when a data file ends in a partial record. Every mutation boundary of each pass is visited; passes are sampled. distinct = (mutation kind x index state x outcome) and pass shapes",
		Assumptions: []string{"crash model = SIGKILL (prefix of completed syscalls)", "no client writes during the pass (that is C05)", "record size at most half the data-file limit"},
		Plan: func(tier string, seed uint64) []Job {
			var jobs []Job
			n, hist, maxs, s2every, max2 := 14, 2, 120, 10, 4
			if tier == "thorough" {
				n, hist, maxs, s2every, max2 = 20, 6, 200, 5, 6
			}
			for i := 0; i < n; i++ {
				jobs = append(jobs, Job{Variant: "plain", Mode: "db.c07", Timeout: 900, Args: js(map[string]interface{}{"Histories": hist, "MaxSnaps": maxs, "Workers": 2, "Stage2Every": s2every, "Max2": max2})})
			}
			return jobs
		},
	})
}
