package main

import (
	"encoding/json"
)

func js(v interface{}) string {
	b, _ := json.Marshal(v)
	return string(b)
}

var props = map[string]*PropSpec{}

func register(p *PropSpec) { props[p.ID] = p }

func init() {
	register(&PropSpec{
		ID: "C16", Level: "exploration",
		Rule:        "differential test of the store's key hash, fnv1a, murmur, value hash and CRC-32 against independently written references (own signed FNV-1a, own MurmurHash3-x86-32, hash/crc32 + bitwise CRC, all validated against published vectors at start-up); inputs: all 1- and 2-byte strings, every length 0..N in four content classes, large CRC inputs, the CRC field of encoded records. distinct = (content class x length class) signatures observed",
		Assumptions: []string{"the published MurmurHash3/FNV-1a/CRC-32 test vectors embedded in ref/vectors.go are correct", "hash/crc32 (Go standard library) implements IEEE CRC-32"},
		Plan: func(tier string, seed uint64) []Job {
			if tier == "thorough" {
				var jobs []Job
				jobs = append(jobs, Job{Variant: "plain", Mode: "store.c16", Args: js(map[string]interface{}{"Random": 40, "MaxLen": 4096, "Exhaust2": true, "CRCMaxLen": 1 << 20})})
				for i := 0; i < 12; i++ {
					jobs = append(jobs, Job{Variant: "plain", Mode: "store.c16", Args: js(map[string]interface{}{"Random": 400, "MaxLen": 4096, "CRCMaxLen": 1 << 20})})
				}
				jobs = append(jobs, Job{Variant: "asan", Mode: "store.c16", Args: js(map[string]interface{}{"Random": 8, "MaxLen": 4096, "Exhaust2": true, "CRCMaxLen": 1 << 20})})
				return jobs
			}
			return []Job{
				{Variant: "plain", Mode: "store.c16", Args: js(map[string]interface{}{"Random": 8, "MaxLen": 4096, "Exhaust2": true, "CRCMaxLen": 1 << 20})},
				{Variant: "plain", Mode: "store.c16", Args: js(map[string]interface{}{"Random": 16, "MaxLen": 2100, "CRCMaxLen": 1 << 18})},
			}
		},
	})
}
