package main

import (
	"encoding/json"
	"fmt"
	"os"
	"path/filepath"
	"regexp"
	"strings"
)

// Race-detector policy (DESIGN.md section 5): reports are counted by the driver,
// deduplicated by the pair of innermost repository frames and classified by the
// source text of the two racing lines. Only a report on a protected object is a
// violation; the rest is listed as informational.

var frameRe = regexp.MustCompile(`^\s+(\S+)\(.*\)\s*$`)
var locRe = regexp.MustCompile(`^\s+(/\S+\.go):(\d+)`)

type raceFrame struct {
	fn, file string
	line     int
}

// protectedExpr lists source fragments that identify the objects whose
// unsynchronised access would void a "for all schedules" claim.
var protectedExpr = []string{
	"leaf[", ".leafs[", "sh.Data", "sh.Len", "tree.levels", "tree.ni", "node.hash", "node.count",
	"dc.wbuf", "wbuf[", "h.index", "h.items", "h.collisions", "h.num", "table.Items", "mgr.stat", "rl.Owners",
	".splits", "sp.buf", "sp.file",
}

type raceAllow struct {
	Allow []struct {
		Sig    string `json:"sig"`
		Reason string `json:"reason"`
	} `json:"allow"`
}

var raceAllowRes []*regexp.Regexp

func loadRaceAllow() {
	if raceAllowRes != nil {
		return
	}
	raceAllowRes = []*regexp.Regexp{}
	b, err := os.ReadFile(verifDir + "/race_allow.json")
	if err != nil {
		return
	}
	var ra raceAllow
	if json.Unmarshal(b, &ra) != nil {
		return
	}
	for _, a := range ra.Allow {
		if re, err := regexp.Compile("^(?:" + a.Sig + ")$"); err == nil {
			raceAllowRes = append(raceAllowRes, re)
		}
	}
}

func raceAllowed(sig string) bool {
	loadRaceAllow()
	for _, re := range raceAllowRes {
		if re.MatchString(sig) {
			return true
		}
	}
	return false
}

func parseRaceLogs(base string, job Job, out *merged) {
	files, _ := filepath.Glob(base + "/race.log.*")
	for _, f := range files {
		b, err := os.ReadFile(f)
		if err != nil {
			continue
		}
		blocks := strings.Split(string(b), "WARNING: DATA RACE")
		for _, blk := range blocks[1:] {
			out.events["race.reports.raw"]++
			frames := topRepoFrames(blk)
			if len(frames) == 0 {
				out.events["race.reports.no_repo_frame"]++
				continue
			}
			var srcs []string
			var locs []string
			prot := ""
			for _, fr := range frames {
				src := sourceLine(fr.file, fr.line)
				srcs = append(srcs, strings.TrimSpace(src))
				locs = append(locs, fmt.Sprintf("%s:%s", filepath.Base(fr.file), fr.fn))
				for _, p := range protectedExpr {
					if strings.Contains(src, p) {
						prot = p
					}
				}
			}
			key := "race:" + strings.Join(locs, "|")
			out.distinct[key]++
			if strings.Contains(frames[0].file, "/zz_vf_") || strings.Contains(frames[0].file, "/verif/") {
				// harness-only frames: our monitor must not be the race
				if len(frames) > 1 && (strings.Contains(frames[1].file, "/zz_vf_") || strings.Contains(frames[1].file, "/verif/")) {
					out.violations = append(out.violations, childViolation{Case: "race", Sig: "race-in-harness:" + key,
						Detail: "data race inside the verification harness itself:\n" + firstN(blk, 3000), job: job})
					continue
				}
			}
			if prot != "" && raceAllowed("race:"+strings.Join(locs, "|")) {
				out.events["race.reports.protected_but_triaged_harmless"]++
			} else if prot != "" {
				out.events["race.reports.protected"]++
				if len(out.violations) < 200 {
					out.violations = append(out.violations, childViolation{Case: "race", Sig: "race:" + strings.Join(locs, "|"),
						Detail: fmt.Sprintf("data race on protected object (%s):\n  %s\n%s", prot, strings.Join(srcs, "\n  "), firstN(blk, 3000)), job: job})
				}
			} else {
				out.events["race.reports.informational"]++
			}
		}
	}
}

func firstN(s string, n int) string {
	if len(s) > n {
		return s[:n]
	}
	return s
}

// topRepoFrames returns, for each of the two accesses of a report, the innermost
// frame that lies in the repository (or harness).
func topRepoFrames(blk string) []raceFrame {
	var res []raceFrame
	lines := strings.Split(blk, "\n")
	inAccess := false
	got := false
	for i := 0; i < len(lines); i++ {
		l := lines[i]
		if strings.HasPrefix(l, "Read at") || strings.HasPrefix(l, "Write at") || strings.HasPrefix(l, "Previous read at") || strings.HasPrefix(l, "Previous write at") ||
			strings.HasPrefix(l, "Atomic") || strings.HasPrefix(l, "Previous atomic") {
			inAccess = true
			got = false
			continue
		}
		if strings.HasPrefix(l, "Goroutine ") {
			inAccess = false
			continue
		}
		if inAccess && !got {
			if m := frameRe.FindStringSubmatch(l); m != nil && i+1 < len(lines) {
				if lm := locRe.FindStringSubmatch(lines[i+1]); lm != nil {
					file := lm[1]
					if strings.HasPrefix(file, repoDir()+"/") || strings.HasPrefix(file, verifDir+"/") {
						var ln int
						fmt.Sscan(lm[2], &ln)
						fn := m[1]
						if k := strings.LastIndex(fn, "/"); k >= 0 {
							fn = fn[k+1:]
						}
						res = append(res, raceFrame{fn, file, ln})
						got = true
					}
				}
			}
		}
	}
	return res
}

var srcCache = map[string][]string{}

func sourceLine(file string, line int) string {
	ls, ok := srcCache[file]
	if !ok {
		b, _ := os.ReadFile(file)
		ls = strings.Split(string(b), "\n")
		srcCache[file] = ls
	}
	if line >= 1 && line <= len(ls) {
		return ls[line-1]
	}
	return ""
}

var asanHeadRe = regexp.MustCompile(`ERROR: AddressSanitizer: (\S+)`)
var asanAccessRe = regexp.MustCompile(`(?m)^(READ|WRITE) of size (\d+)`)
var asanFrameRe = regexp.MustCompile(`(?m)^\s+#(\d+) 0x[0-9a-f]+ in (\S+) (\S+)`)

// parseAsanLogs reads every AddressSanitizer report block of a child (recover
// mode: there may be many). One class is informational: QuickLZ's word-wise
// fetch (fast_read) reads a whole 32-bit word where fewer bytes remain, i.e. it
// over-reads its *source* by at most 3 bytes; that is the library's documented
// access pattern on valid streams, changes no reply and is not a property of the
// list. Every other report is a violation.
func parseAsanLogs(base, logPath string, job Job, out *merged, curCase string, childDone bool) {
	files, _ := filepath.Glob(base + "/asan.log*")
	files = append(files, logPath)
	for _, f := range files {
		b, err := os.ReadFile(f)
		if err != nil {
			continue
		}
		blocks := strings.Split(string(b), "=================================================================")
		for _, blk := range blocks {
			m := asanHeadRe.FindStringSubmatch(blk)
			if m == nil {
				continue
			}
			out.events["asan.reports"]++
			kind := m[1]
			access, size := "", ""
			if am := asanAccessRe.FindStringSubmatch(blk); am != nil {
				access, size = am[1], am[2]
			}
			top := ""
			var chain []string
			for _, fm := range asanFrameRe.FindAllStringSubmatch(blk, 6) {
				if top == "" {
					top = fm[2]
				}
				chain = append(chain, fm[2])
			}
			if access == "READ" && size == "4" && top == "fast_read" && (kind == "use-after-poison" || kind == "heap-buffer-overflow") {
				out.events["asan.informational.quicklz_fast_read_source_overread"]++
				continue
			}
			caseID := "asan"
			if !childDone && curCase != "" && (kind == "SEGV" || strings.Contains(blk, "ABORTING")) {
				caseID = curCase
			}
			if len(out.violations) < 300 {
				out.violations = append(out.violations, childViolation{Case: caseID, Sig: fmt.Sprintf("asan:%s:%s%s:%s", kind, access, size, top),
					Detail: "AddressSanitizer report (" + strings.Join(chain, " <- ") + "):\n" + firstN(strings.TrimSpace(blk), 3500), job: job})
			}
		}
	}
}
