// vcheck is the driver of the runtime-verification machinery: it rebuilds the
// instrumented child from /repo's working tree, runs the child processes of one
// property, merges what they observed, applies the known-findings file, writes
// the evidence file and prints the verdict.
package main

import (
	"encoding/json"
	"fmt"
	"os"
	"strconv"
	"strings"
	"time"
)

// verifDir is the root of the verification machinery: the directory the check
// script runs from (normally /verif; a snapshot directory under `vp run`).
var verifDir = func() string {
	if d := os.Getenv("VERIF_DIR"); d != "" {
		return d
	}
	if wd, err := os.Getwd(); err == nil {
		if _, err := os.Stat(wd + "/properties.jsonl"); err == nil {
			return wd
		}
	}
	return "/verif"
}()

func repoDir() string {
	if d := os.Getenv("VERIF_REPO"); d != "" {
		return d
	}
	return "/repo"
}

func usage() {
	fmt.Fprintln(os.Stderr, "usage: vcheck <C01..C18> [--tier quick|thorough] [--seed N]\n       vcheck replay <file>\n       vcheck build [plain|race|asan ...]")
	os.Exit(2)
}

func main() {
	if len(os.Args) < 2 {
		usage()
	}
	switch os.Args[1] {
	case "build":
		vs := os.Args[2:]
		if len(vs) == 0 {
			vs = []string{"plain", "race", "asan"}
		}
		for _, v := range vs {
			if _, err := buildChild(v); err != nil {
				fmt.Println("BUILD FAILED", v, err)
				os.Exit(2)
			}
		}
		return
	case "replay":
		if len(os.Args) < 3 {
			usage()
		}
		os.Exit(replay(os.Args[2]))
	}
	prop := os.Args[1]
	tier := os.Getenv("VERIF_TIER")
	if tier == "" {
		tier = "quick"
	}
	seed := uint64(1)
	if s := os.Getenv("VERIF_SEED"); s != "" {
		if v, err := strconv.ParseUint(s, 10, 64); err == nil {
			seed = v
		}
	}
	for i := 2; i < len(os.Args); i++ {
		switch os.Args[i] {
		case "--tier":
			i++
			tier = os.Args[i]
		case "--seed":
			i++
			seed, _ = strconv.ParseUint(os.Args[i], 10, 64)
		default:
			usage()
		}
	}
	spec, ok := props[prop]
	if !ok {
		fmt.Fprintln(os.Stderr, "unknown property", prop)
		os.Exit(2)
	}
	os.Exit(runProperty(spec, tier, seed))
}

func replay(path string) int {
	b, err := os.ReadFile(path)
	if err != nil {
		fmt.Println("cannot read replay file:", err)
		return 2
	}
	var rp ReplayFile
	if err := json.Unmarshal(b, &rp); err != nil {
		fmt.Println("bad replay file:", err)
		return 2
	}
	spec, ok := props[rp.Property]
	if !ok {
		fmt.Println("unknown property in replay file")
		return 2
	}
	job := rp.Job
	job.Only = rp.Case
	reps := 1
	if spec.ReplayReps > 0 {
		reps = spec.ReplayReps
	}
	reproduced := 0
	for i := 0; i < reps; i++ {
		out := runJobs(spec, []Job{job})
		if len(out.violations) > 0 {
			reproduced++
			if i == 0 {
				for _, v := range out.violations {
					fmt.Printf("case %s sig %s\n%s\n", v.Case, v.Sig, v.Detail)
				}
			}
		}
	}
	fmt.Printf("replay %s: reproduced %d/%d\n", path, reproduced, reps)
	if reproduced > 0 {
		return 1
	}
	return 0
}

type ReplayFile struct {
	Property string      `json:"property"`
	Case     string      `json:"case"`
	Sig      string      `json:"sig"`
	Detail   string      `json:"detail"`
	Job      Job         `json:"job"`
	Replay   interface{} `json:"replay,omitempty"`
}

func runProperty(spec *PropSpec, tier string, seed uint64) int {
	start := time.Now()
	jobs := spec.Plan(tier, seed)
	for i := range jobs {
		if jobs[i].Seed == 0 {
			jobs[i].Seed = seed*1000003 + uint64(i)*7919 + 17
		}
		if tier == "thorough" && jobs[i].Timeout < 5400 {
			jobs[i].Timeout = 5400 // watchdog only; its firing is inconclusive
		}
	}
	out := runJobs(spec, jobs)
	kf := loadKnownFindings()
	nviol := 0
	knownHit := map[string]int{}
	os.MkdirAll(verifDir+"/replays/"+spec.ID, 0755)
	var lines []string
	sigSeen := map[string]int{}
	for _, v := range out.violations {
		if k := kf.match(spec.ID, v.Sig); k != nil {
			knownHit[k.ID]++
			if os.Getenv("VERIF_KEEP_KNOWN") != "" { // triage aid: keep the witnesses of known findings too
				name := fmt.Sprintf("%s/replays/%s/known-%d-%s-%s.json", verifDir, spec.ID, seed, sanitize(v.Case), sanitize(strings.TrimPrefix(v.Sig, strings.ToLower(spec.ID)+":")))
				b, _ := json.MarshalIndent(ReplayFile{Property: spec.ID, Case: v.Case, Sig: v.Sig, Detail: v.Detail, Job: v.job, Replay: v.Replay}, "", " ")
				os.WriteFile(name, b, 0644)
			}
			continue
		}
		nviol++
		sigSeen[v.Sig]++
		if sigSeen[v.Sig] > 2 && nviol > 10 {
			continue // enough witnesses of this signature
		}
		name := fmt.Sprintf("%s/replays/%s/%d-%s-%s.json", verifDir, spec.ID, seed, sanitize(v.Case), sanitize(strings.TrimPrefix(v.Sig, strings.ToLower(spec.ID)+":")))
		rp := ReplayFile{Property: spec.ID, Case: v.Case, Sig: v.Sig, Detail: v.Detail, Job: v.job, Replay: v.Replay}
		b, _ := json.MarshalIndent(rp, "", " ")
		os.WriteFile(name, b, 0644)
		if len(lines) < 10 {
			lines = append(lines, fmt.Sprintf("VIOLATION property=%s replay=%s", spec.ID, name))
			fmt.Printf("  case=%s sig=%s\n  %s\n", v.Case, v.Sig, firstLines(v.Detail, 12))
		}
	}
	bySig := map[string]int{}
	for _, v := range out.violations {
		if kf.match(spec.ID, v.Sig) != nil {
			bySig["(known finding) "+v.Sig]++
		} else {
			bySig[v.Sig]++
		}
	}
	for sg, n := range bySig {
		fmt.Printf("  by signature: %-70s %d\n", sg, n)
	}
	for _, k := range kf.Findings {
		if k.Property == spec.ID && k.Status == "open" && knownHit[k.ID] > 0 {
			fmt.Printf("KNOWN-FINDING: property=%s %s (%d occurrences this run)\n", spec.ID, k.What, knownHit[k.ID])
		}
	}
	wall := time.Since(start).Seconds()
	writeEvidence(spec, tier, seed, out, nviol, knownHit, wall)
	fmt.Printf("%s tier=%s seed=%d: %d evaluations, %d distinct non-trivial, %d children, %d violations, %d known-finding hits, %d inconclusive, %.1fs\n",
		spec.ID, tier, seed, out.evaluations, len(out.distinct), out.children, nviol, sum(knownHit), len(out.inconclusive), wall)
	for _, l := range lines {
		fmt.Println(l)
	}
	if nviol > 0 {
		return 1
	}
	if len(out.inconclusive) > 0 {
		for i, m := range out.inconclusive {
			if i < 10 {
				fmt.Println("INCONCLUSIVE:", m)
			}
		}
		return 2
	}
	if out.evaluations == 0 || len(out.distinct) < 2 {
		fmt.Println("INCONCLUSIVE: the monitors observed nothing")
		return 2
	}
	return 0
}

func sum(m map[string]int) int {
	n := 0
	for _, v := range m {
		n += v
	}
	return n
}

func sanitize(s string) string {
	s = strings.Map(func(r rune) rune {
		if r >= 'a' && r <= 'z' || r >= 'A' && r <= 'Z' || r >= '0' && r <= '9' || r == '-' || r == '_' || r == '.' {
			return r
		}
		return '_'
	}, s)
	if len(s) > 80 {
		s = s[:80]
	}
	return s
}

func firstLines(s string, n int) string {
	ls := strings.Split(s, "\n")
	if len(ls) > n {
		ls = ls[:n]
	}
	return strings.Join(ls, "\n  ")
}
