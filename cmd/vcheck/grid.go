package main

import "verif/ref"

// StoreCfg mirrors harness/store VFConfig (JSON field names must match).
type StoreCfg struct {
	NumBucket     int
	Served        []int `json:",omitempty"`
	TreeHeight    int
	CheckVHash    bool
	DataFileMax   int64
	SplitCap      int64
	IndexInterval int64
	BodyInC       int64
	BodyMax       int64
	MergeInterval int  `json:",omitempty"`
	NoMerged      bool `json:",omitempty"`
	TreeDump      int  `json:",omitempty"`
	FlushInterval int  `json:",omitempty"`
}

// cornerConfigs are always included.
func cornerConfigs() []StoreCfg {
	return []StoreCfg{
		{NumBucket: 16, TreeHeight: 3, DataFileMax: 4000 << 20, SplitCap: 1 << 20, IndexInterval: 4096, BodyInC: 4096, BodyMax: 1 << 20},
		{NumBucket: 1, TreeHeight: 2, CheckVHash: true, DataFileMax: 4 * 256, SplitCap: 2, IndexInterval: 64, BodyInC: 0, BodyMax: 1 << 20},
		{NumBucket: 256, TreeHeight: 2, DataFileMax: 20 * 256, SplitCap: 5, IndexInterval: 512, BodyInC: 4096, BodyMax: 1 << 20, Served: []int{0x00, 0x3a, 0x7f, 0x80, 0xc4, 0xff}},
	}
}

// gridConfig draws one configuration of the grid of DESIGN.md section 3.
func gridConfig(r *ref.Rand, thorough bool) StoreCfg {
	c := StoreCfg{BodyMax: 1 << 20}
	c.NumBucket = r.Pick(1, 16, 256)
	depth := map[int]int{1: 0, 16: 1, 256: 2}[c.NumBucket]
	maxH := 8 - depth
	cap := 4
	if thorough {
		cap = 6
	}
	if maxH > cap {
		maxH = cap
	}
	c.TreeHeight = r.Range(2, maxH)
	c.CheckVHash = r.Bool()
	c.DataFileMax = int64(r.Pick(4*256, 20*256, 256*256, 4000<<20))
	c.SplitCap = int64(r.Pick(2, 5, 64, 1<<20))
	c.IndexInterval = int64(r.Pick(64, 512, 4096))
	c.BodyInC = int64(r.Pick(0, 4096))
	// tall trees cost 16^(h-1) leaf slots per served bucket: serve few buckets then
	switch c.NumBucket {
	case 16:
		if c.TreeHeight >= 5 {
			c.Served = []int{r.Intn(16), r.Intn(16)}
		}
	case 256:
		n := 8
		if c.TreeHeight >= 4 {
			n = 2
		}
		for i := 0; i < n; i++ {
			c.Served = append(c.Served, r.Intn(256))
		}
	}
	return c
}

// limitServed restricts a configuration to at most n served buckets (opening a
// bucket costs tens of milliseconds in the store itself; restart-heavy checks
// keep the bucket count of the grid but serve only a few of them).
func limitServed(cs []StoreCfg, n int, seed uint64) []StoreCfg {
	r := ref.NewRand(seed ^ 0xb0c4e7)
	for i := range cs {
		c := &cs[i]
		if c.NumBucket == 1 {
			continue
		}
		if c.Served == nil || len(c.Served) > n {
			var sv []int
			for j := 0; j < n; j++ {
				sv = append(sv, r.Intn(c.NumBucket))
			}
			c.Served = sv
		}
	}
	return cs
}

func configsFor(tier string, seed uint64, nquick, nthorough int) []StoreCfg {
	r := ref.NewRand(seed ^ 0x5eed)
	cs := cornerConfigs()
	n := nquick
	if tier == "thorough" {
		n = nthorough
	}
	for len(cs) < n {
		cs = append(cs, gridConfig(r, tier == "thorough"))
	}
	return cs
}
