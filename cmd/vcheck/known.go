package main

import (
	"encoding/json"
	"os"
	"regexp"
)

// Finding is one entry of /verif/known_findings.json. The file is committed and
// never written at run time. Only entries with status "open" suppress a
// violation, and only one whose signature matches Sig (a regular expression
// anchored at both ends).
type Finding struct {
	Property string `json:"property"`
	ID       string `json:"id"`
	Status   string `json:"status"` // open | fixed
	Commit   string `json:"commit,omitempty"`
	Sig      string `json:"sig"`
	What     string `json:"what"`
}

type KnownFindings struct {
	Findings []Finding `json:"findings"`
}

func loadKnownFindings() *KnownFindings {
	kf := &KnownFindings{}
	b, err := os.ReadFile(verifDir + "/known_findings.json")
	if err != nil {
		return kf
	}
	json.Unmarshal(b, kf)
	return kf
}

func (kf *KnownFindings) match(prop, sig string) *Finding {
	for i := range kf.Findings {
		f := &kf.Findings[i]
		if f.Property != prop || f.Status != "open" || f.Sig == "" {
			continue
		}
		re, err := regexp.Compile("^(?:" + f.Sig + ")$")
		if err != nil {
			continue
		}
		if re.MatchString(sig) {
			return f
		}
	}
	return nil
}
