package main

import (
	"bytes"
	"crypto/sha1"
	"encoding/json"
	"fmt"
	"os"
	"os/exec"
	"path/filepath"
	"sort"
	"strings"
	"sync"
	"syscall"
	"time"
)

type Job struct {
	Variant string `json:"variant"` // plain | race | asan
	Mode    string `json:"mode"`
	Seed    uint64 `json:"seed"`
	Args    string `json:"args"` // JSON understood by the mode
	Only    string `json:"only,omitempty"`
	Timeout int    `json:"timeout_s,omitempty"` // wall-clock watchdog (inconclusive when it fires)
	// ExitOK lists child exit codes that the mode itself interprets (e.g. the
	// fail-stop refusal of C06); any other abnormal exit is a violation witness.
	ExitOK []int `json:"exit_ok,omitempty"`
}

type PropSpec struct {
	ID          string
	Level       string // evidence level
	Rule        string
	Assumptions []string
	Plan        func(tier string, seed uint64) []Job
	ReplayReps  int
	// Keep, when set, selects the violations that belong to this property (a
	// child shared by several properties tags each signature with its property).
	Keep func(sig string) bool
	// Post, when set, runs driver-side checkers over the merged output.
	Post func(spec *PropSpec, out *merged)
}

type childViolation struct {
	Case   string      `json:"case"`
	Sig    string      `json:"sig"`
	Detail string      `json:"detail"`
	Replay interface{} `json:"replay,omitempty"`
	job    Job
}

type childResult struct {
	Mode         string           `json:"mode"`
	Seed         uint64           `json:"seed"`
	Evaluations  int64            `json:"evaluations"`
	Events       map[string]int64 `json:"events"`
	Distinct     map[string]int64 `json:"distinct"`
	Samples      []interface{}    `json:"samples"`
	Violations   []childViolation `json:"violations"`
	Inconclusive []string         `json:"inconclusive"`
	Notes        []string         `json:"notes"`
	Done         bool             `json:"done"`
}

type merged struct {
	mu           sync.Mutex
	evaluations  int64
	events       map[string]int64
	distinct     map[string]int64
	samples      []interface{}
	violations   []childViolation
	inconclusive []string
	notes        []string
	children     int
	extra        map[string]interface{}
}

func newMerged() *merged {
	return &merged{events: map[string]int64{}, distinct: map[string]int64{}, extra: map[string]interface{}{}}
}

func goEnv() []string {
	env := os.Environ()
	env = append(env, "GOFLAGS=-mod=mod", "GOPROXY=off", "GOSUMDB=off", "GOTOOLCHAIN=local", "CGO_ENABLED=1")
	return env
}

func repoTag() string {
	r := repoDir()
	if r == "/repo" {
		return ""
	}
	h := sha1.Sum([]byte(r))
	return fmt.Sprintf(".%x", h[:4])
}

// buildChild rebuilds the instrumented child from the current working tree of
// the repository (harness files are overlaid into the repository's packages).
func buildChild(variant string) (string, error) {
	bdir := verifDir + "/build"
	os.MkdirAll(bdir, 0755)
	lock, err := os.OpenFile(bdir+"/.lock", os.O_CREATE|os.O_RDWR, 0644)
	if err != nil {
		return "", err
	}
	defer lock.Close()
	syscall.Flock(int(lock.Fd()), syscall.LOCK_EX)
	defer syscall.Flock(int(lock.Fd()), syscall.LOCK_UN)

	repo := repoDir()
	tag := repoTag()
	// overlay: harness/<pkg>/x.go -> <repo>/<pkg>/zz_vf_x.go
	ov := map[string]map[string]string{"Replace": {}}
	pkgs, _ := filepath.Glob(verifDir + "/harness/*")
	for _, p := range pkgs {
		files, _ := filepath.Glob(p + "/*.go")
		for _, f := range files {
			ov["Replace"][filepath.Join(repo, filepath.Base(p), "zz_vf_"+filepath.Base(f))] = f
		}
	}
	modfile := verifDir + "/go.mod"
	if tag != "" {
		// alternate go.mod pointing the replace directive at the other tree
		b, _ := os.ReadFile(verifDir + "/go.mod")
		alt := strings.Replace(string(b), "=> /repo", "=> "+repo, 1)
		modfile = bdir + "/go" + tag + ".mod"
		os.WriteFile(modfile, []byte(alt), 0644)
		sum, _ := os.ReadFile(verifDir + "/go.sum")
		os.WriteFile(bdir+"/go"+tag+".sum", sum, 0644)
	}
	ovb, _ := json.Marshal(ov)
	ovpath := bdir + "/overlay" + tag + ".json"
	os.WriteFile(ovpath, ovb, 0644)
	bin := bdir + "/vfchild." + variant + tag
	args := []string{"build", "-overlay", ovpath, "-tags", "verif", "-o", bin + ".new"}
	if tag != "" {
		args = append(args, "-modfile", modfile)
	}
	switch variant {
	case "plain":
	case "race":
		args = append(args, "-race", "-gcflags=all=-d=checkptr=0")
	case "asan":
		args = append(args, "-asan", "-gcflags=all=-d=checkptr=0")
	default:
		return "", fmt.Errorf("unknown variant %s", variant)
	}
	args = append(args, "./cmd/vfchild")
	cmd := exec.Command("go", args...)
	cmd.Dir = verifDir
	cmd.Env = goEnv()
	if variant == "asan" {
		// recover mode: a report does not end the child, so that one finding does
		// not mask the rest; the driver counts and classifies the report blocks
		cmd.Env = append(cmd.Env, "CGO_CFLAGS=-g -O2 -fsanitize-recover=address")
	}
	var buf bytes.Buffer
	cmd.Stdout = &buf
	cmd.Stderr = &buf
	if err := cmd.Run(); err != nil {
		return "", fmt.Errorf("go %s: %v\n%s", strings.Join(args, " "), err, buf.String())
	}
	if err := os.Rename(bin+".new", bin); err != nil {
		return "", err
	}
	return bin, nil
}

func workers() int {
	return 14
}

func runJobs(spec *PropSpec, jobs []Job) *merged {
	out := newMerged()
	bins := map[string]string{}
	for _, j := range jobs {
		if _, ok := bins[j.Variant]; ok {
			continue
		}
		bin, err := buildChild(j.Variant)
		if err != nil {
			out.inconclusive = append(out.inconclusive, "build failed: "+err.Error())
			return out
		}
		bins[j.Variant] = bin
	}
	tmp := fmt.Sprintf("%s/build/tmp/%s-%d", verifDir, spec.ID, os.Getpid())
	os.RemoveAll(tmp)
	os.MkdirAll(tmp, 0755)
	defer os.RemoveAll(tmp)

	type item struct {
		idx int
		job Job
	}
	ch := make(chan item)
	var wg sync.WaitGroup
	n := workers()
	if len(jobs) < n {
		n = len(jobs)
	}
	for w := 0; w < n; w++ {
		wg.Add(1)
		go func() {
			defer wg.Done()
			for it := range ch {
				runOne(spec, bins[it.job.Variant], it.job, fmt.Sprintf("%s/j%04d", tmp, it.idx), out)
			}
		}()
	}
	for i, j := range jobs {
		ch <- item{i, j}
	}
	close(ch)
	wg.Wait()
	if spec.Post != nil {
		spec.Post(spec, out)
	}
	return out
}

func runOne(spec *PropSpec, bin string, job Job, base string, out *merged) {
	os.MkdirAll(base, 0755)
	resPath := base + "/result.json"
	logPath := base + "/child.log"
	args := []string{"-mode", job.Mode, "-seed", fmt.Sprint(job.Seed), "-args", job.Args, "-out", resPath, "-work", base + "/work"}
	if job.Only != "" {
		args = append(args, "-only", job.Only)
	}
	to := job.Timeout
	if to == 0 {
		to = 420
	}
	cmd := exec.Command(bin, args...)
	lf, _ := os.Create(logPath)
	cmd.Stdout = lf
	cmd.Stderr = lf
	env := os.Environ()
	switch job.Variant {
	case "race":
		env = append(env, "GORACE=halt_on_error=0 exitcode=0 log_path="+base+"/race.log history_size=3")
	case "asan":
		env = append(env, "ASAN_OPTIONS=detect_leaks=0:abort_on_error=0:halt_on_error=0:exitcode=66:log_path="+base+"/asan.log")
	}
	cmd.Env = env
	cmd.SysProcAttr = &syscall.SysProcAttr{Setpgid: true}
	start := time.Now()
	err := cmd.Start()
	if err != nil {
		out.mu.Lock()
		out.inconclusive = append(out.inconclusive, "cannot start child: "+err.Error())
		out.mu.Unlock()
		return
	}
	done := make(chan error, 1)
	go func() { done <- cmd.Wait() }()
	watchdog := false
	select {
	case err = <-done:
	case <-time.After(time.Duration(to) * time.Second):
		watchdog = true
		cmd.Process.Signal(syscall.SIGQUIT)
		select {
		case err = <-done:
		case <-time.After(10 * time.Second):
			syscall.Kill(-cmd.Process.Pid, syscall.SIGKILL)
			err = <-done
		}
	}
	lf.Close()
	if os.Getenv("VERIF_VERBOSE") != "" {
		fmt.Printf("  job %s %s seed %d: %.1fs args %s\n", job.Variant, job.Mode, job.Seed, time.Since(start).Seconds(), firstN(job.Args, 200))
	}
	exitCode := 0
	if err != nil {
		exitCode = -1
		if ee, ok := err.(*exec.ExitError); ok {
			exitCode = ee.ExitCode()
		}
	}

	var res childResult
	b, rerr := os.ReadFile(resPath)
	if rerr == nil {
		rerr = json.Unmarshal(b, &res)
	}
	out.mu.Lock()
	defer out.mu.Unlock()
	out.children++
	if rerr == nil {
		out.evaluations += res.Evaluations
		for k, v := range res.Events {
			out.events[k] += v
		}
		for k, v := range res.Distinct {
			out.distinct[k] += v
		}
		for _, s := range res.Samples {
			if len(out.samples) < 4 {
				out.samples = append(out.samples, s)
			}
		}
		for _, v := range res.Violations {
			v.job = job
			if spec.Keep != nil && !spec.Keep(v.Sig) {
				out.events["violations_of_other_properties"]++
				out.events["other_property_violation."+v.Sig]++
				continue
			}
			out.violations = append(out.violations, v)
		}
		out.inconclusive = append(out.inconclusive, res.Inconclusive...)
		for _, nn := range res.Notes {
			if len(out.notes) < 40 {
				out.notes = append(out.notes, nn)
			}
		}
	}
	okExit := exitCode == 0
	for _, c := range job.ExitOK {
		if exitCode == c {
			okExit = true
		}
	}
	if watchdog {
		out.inconclusive = append(out.inconclusive, fmt.Sprintf("watchdog (%ds) fired for mode %s seed %d; log tail: %s", to, job.Mode, job.Seed, tail(logPath, 1500)))
		keepLog(spec, job, logPath)
	} else if rerr != nil || !res.Done || !okExit {
		// the child died: the case that was running is the witness
		cur := map[string]interface{}{}
		if cb, e := os.ReadFile(resPath + ".cur"); e == nil {
			json.Unmarshal(cb, &cur)
		}
		caseID, _ := cur["case"].(string)
		if caseID == "" {
			caseID = "startup"
		}
		logTail := tail(logPath, 3000)
		sig := "child-died:" + classifyDeath(logTail, exitCode)
		saved := keepLog(spec, job, logPath)
		out.violations = append(out.violations, childViolation{Case: caseID, Sig: sig,
			Detail: fmt.Sprintf("child exited abnormally (exit code %d, result done=%v) while running case %s; log %s; tail:\n%s", exitCode, res.Done, caseID, saved, logTail),
			Replay: cur["replay"], job: job})
	}
	if os.Getenv("VERIF_KEEP_LOGS") != "" { // triage aid: keep every child's log under replays/<id>/
		keepLog(spec, job, logPath)
	}
	// sanitizer reports
	if job.Variant == "race" {
		parseRaceLogs(base, job, out)
	}
	if job.Variant == "asan" {
		curCase := ""
		if cb, e := os.ReadFile(resPath + ".cur"); e == nil {
			cur := map[string]interface{}{}
			json.Unmarshal(cb, &cur)
			curCase, _ = cur["case"].(string)
		}
		parseAsanLogs(base, logPath, job, out, curCase, res.Done)
	}
}

func keepLog(spec *PropSpec, job Job, logPath string) string {
	dir := verifDir + "/replays/" + spec.ID
	os.MkdirAll(dir, 0755)
	dst := fmt.Sprintf("%s/childlog-%s-%d.txt", dir, job.Mode, job.Seed)
	b, err := os.ReadFile(logPath)
	if err != nil {
		return ""
	}
	if len(b) > 200000 {
		b = b[len(b)-200000:]
	}
	os.WriteFile(dst, b, 0644)
	return dst
}

func classifyDeath(logTail string, code int) string {
	switch {
	case strings.Contains(logTail, "AddressSanitizer"):
		return "asan"
	case strings.Contains(logTail, "fatal error: concurrent map"):
		return "concurrent-map"
	case strings.Contains(logTail, "fatal error:"):
		return "go-fatal"
	case strings.Contains(logTail, "panic:"):
		return "panic"
	case strings.Contains(logTail, "SIGSEGV") || strings.Contains(logTail, "signal SIG"):
		return "signal"
	case strings.Contains(logTail, "FATAL"):
		return "logger-fatal"
	}
	return fmt.Sprintf("exit-%d", code)
}

func tail(path string, n int) string {
	b, err := os.ReadFile(path)
	if err != nil {
		return ""
	}
	if len(b) > n {
		b = b[len(b)-n:]
	}
	return string(b)
}

func writeEvidence(spec *PropSpec, tier string, seed uint64, out *merged, nviol int, knownHit map[string]int, wall float64) {
	cov := map[string]interface{}{
		"evaluations":         out.evaluations,
		"distinct_nontrivial": len(out.distinct),
		"rule":                spec.Rule,
		"samples":             out.samples,
		"events":              out.events,
		"children":            out.children,
		"inconclusive":        out.inconclusive,
		"known_findings_hit":  knownHit,
	}
	if len(out.samples) == 0 {
		cov["samples"] = []interface{}{"(no sample recorded)"}
	}
	// a bounded listing of the distinct signatures that were observed
	sigs := make([]string, 0, len(out.distinct))
	for k := range out.distinct {
		sigs = append(sigs, k)
	}
	sort.Strings(sigs)
	// stratified listing: up to 8 signatures per leading path segment
	perGroup := map[string]int{}
	groupTotal := map[string]int{}
	var listed []string
	for _, sg := range sigs {
		g := sg
		if i := strings.IndexAny(sg, "/:"); i >= 0 {
			g = sg[:i]
		}
		groupTotal[g]++
		if perGroup[g] < 8 && len(listed) < 120 {
			perGroup[g]++
			listed = append(listed, sg)
		}
	}
	cov["distinct_signatures_sample"] = listed
	cov["distinct_signatures_by_group"] = groupTotal
	if len(out.notes) > 0 {
		cov["notes"] = out.notes
	}
	for k, v := range out.extra {
		cov[k] = v
	}
	ev := map[string]interface{}{
		"property_id": spec.ID,
		"tier":        tier,
		"seed":        seed,
		"level":       spec.Level,
		"coverage":    cov,
		"assumptions": spec.Assumptions,
		"wall_s":      wall,
		"violations":  nviol,
	}
	// runs against another tree (VERIF_REPO, used to try seeded changes) must not
	// overwrite the evidence of the registered checks
	dir := verifDir + "/evidence"
	if repoTag() != "" {
		dir = verifDir + "/build/evidence" + repoTag()
	}
	os.MkdirAll(dir, 0755)
	b, _ := json.MarshalIndent(ev, "", " ")
	os.WriteFile(dir+"/"+spec.ID+".json", b, 0644)
}
