package proto

import (
	"fmt"
	"strings"

	"verif/ref"
)

// Cmd is one generated command with everything the oracles need.
type Cmd struct {
	Verb    string   `json:"verb"`
	Kind    string   `json:"kind"`  // reply grammar: get gets store delete arith stats version ok unknown
	Class   string   `json:"class"` // attribution class (C12 signatures)
	Raw     []byte   `json:"-"`
	RawQ    string   `json:"raw"` // quoted form for replay files
	Keys    []string `json:"keys,omitempty"`
	Val     []byte   `json:"-"`
	Flags   uint32   `json:"flags,omitempty"`
	Rev     int32    `json:"rev,omitempty"`
	Delta   int64    `json:"delta,omitempty"`
	NoReply bool     `json:"noreply,omitempty"`
	// Closes: the server may answer this command by closing the connection
	// (quit, and verbs it does not implement)
	Closes bool `json:"closes,omitempty"`
	// Special: the key selects meta-get / directory listing; content is not modelled
	Special bool `json:"special,omitempty"`
}

func (c *Cmd) finish() *Cmd {
	c.RawQ = fmt.Sprintf("%q", c.Raw)
	if len(c.RawQ) > 300 {
		c.RawQ = c.RawQ[:300] + "..."
	}
	return c
}

// protocol-safe key alphabet (no space, no control bytes)
const pkChars = "abcdefghijklmnopqrstuvwxyzABCDEFGHIJKLMNOPQRSTUVWXYZ0123456789_-/:.!#$%&*+,;<=>[]^{|}~"

func GenProtoKeys(r *ref.Rand, n int) []string {
	seen := map[string]bool{}
	var keys []string
	for len(keys) < n {
		l := r.Pick(1, 2, 5, 12, 30, 249, 250, r.Range(1, 60))
		b := make([]byte, l)
		for i := range b {
			b[i] = pkChars[r.Intn(len(pkChars))]
		}
		if r.Intn(6) == 0 && l >= 3 { // bytes >= 0x80
			b[1] = byte(0xc0 + r.Intn(0x3f))
			b[2] = byte(0xa1 + r.Intn(0x5e))
		}
		k := string(b)
		if !ref.ValidKey(k) || seen[k] {
			continue
		}
		seen[k] = true
		keys = append(keys, k)
	}
	return keys
}

// GenBody returns a value containing CR, LF and NUL bytes at interesting places.
func GenBody(r *ref.Rand, max int) []byte {
	n := r.Pick(0, 1, 2, 5, r.Range(0, 300), r.Range(0, max))
	if max > 10240+16 && r.Intn(8) == 0 {
		// both sides of the 10 KB compression probe (TRY_COMPRESS_SIZE)
		n = r.Pick(10239, 10240, 10241, 10242, r.Range(10241, max))
	}
	if n > max {
		n = max
	}
	b := r.Bytes(n)
	switch r.Intn(7) {
	case 5: // periodic: what an LZ compressor shrinks (server-side compression applies above one block)
		p := r.Range(1, 40)
		for i := p; i < n; i++ {
			b[i] = b[i-p]
		}
	case 6: // words from a small dictionary, CR/LF inside
		words := []string{"lorem ", "ipsum\r\n", "dolor ", "END\r\n", "sit amet, ", "\x00\x01", "consectetur "}
		for i := 0; i < n; {
			i += copy(b[i:], words[r.Intn(len(words))])
		}
	case 0:
		const a = "\r\n\x00 END\r\nSTORED\r\nget k\r\n"
		for i := range b {
			b[i] = a[r.Intn(len(a))]
		}
	case 1:
		copy(b, []byte("\r\nEND\r\n"))
	case 2:
		if n >= 2 {
			b[n-2], b[n-1] = '\r', '\n'
		}
	case 3:
		const a = "0123456789abcdef ghijkl\n"
		for i := range b {
			b[i] = a[r.Intn(len(a))]
		}
	}
	return b
}

func hexPath(r *ref.Rand, n int) string {
	b := make([]byte, n)
	for i := range b {
		b[i] = "0123456789abcdef"[r.Intn(16)]
	}
	return string(b)
}

type GenCfg struct {
	MaxBody   int
	BigBody   int  // > 0: occasionally send bodies above this size (OOM refusal class)
	AllowQuit bool // verbs that make the server close may appear (only as the last command)
	// SmallFlags keeps client flags below 10000, so that no single-byte mutation of
	// the stream can turn them into a value carrying the server-reserved bit 0x10000
	SmallFlags bool
	// NegativeRev lets "set" carry a negative revision (a class of its own)
	NegativeRev bool
}

// GenCommand draws one well-formed command.
func GenCommand(r *ref.Rand, keys []string, g GenCfg, last bool) *Cmd {
	key := keys[r.Intn(len(keys))]
	nr := r.Intn(8) == 0
	nrs := ""
	if nr {
		nrs = " noreply"
	}
	x := r.Intn(100)
	switch {
	case x < 18:
		return (&Cmd{Verb: "get", Kind: "get", Class: "get", Keys: []string{key}, Raw: []byte("get " + key + "\r\n")}).finish()
	case x < 24:
		n := r.Range(2, 6)
		ks := make([]string, n)
		for i := range ks {
			ks[i] = keys[r.Intn(len(keys))]
		}
		cls := "get-multi"
		if r.Bool() {
			ks[n-1] = ks[0]
			cls = "get-multi-dup"
		}
		if r.Intn(4) == 0 {
			// a long command line: many keys, some of them long keys that were never stored;
			// the line crosses the 4 KB / 8 KB sizes of typical read buffers
			n = r.Range(12, 90)
			ks = make([]string, n)
			total := 0
			for i := range ks {
				if r.Intn(5) < 3 {
					ks[i] = keys[r.Intn(len(keys))]
				} else {
					ks[i] = strings.Repeat("M", r.Range(60, 240)) + fmt.Sprint(r.Intn(1000000))
				}
				total += len(ks[i]) + 1
			}
			switch {
			case total > 8192:
				cls = "get-multi-long>8K"
			case total > 4096:
				cls = "get-multi-long>4K"
			default:
				cls = "get-multi-long<=4K"
			}
		}
		verb := "get"
		if r.Intn(4) == 0 {
			verb = "gets"
		}
		return (&Cmd{Verb: verb, Kind: verb, Class: cls, Keys: ks, Raw: []byte(verb + " " + strings.Join(ks, " ") + "\r\n")}).finish()
	case x < 27:
		return (&Cmd{Verb: "gets", Kind: "gets", Class: "gets", Keys: []string{key}, Raw: []byte("gets " + key + "\r\n")}).finish()
	case x < 52:
		verb := []string{"set", "set", "set", "add", "replace", "cas"}[r.Intn(6)]
		body := GenBody(r, g.MaxBody)
		cls := verb
		if g.BigBody > 0 && r.Intn(4) == 0 {
			body = r.Bytes(g.BigBody + r.Range(1, 200))
			// make the body look like commands: if the server does not consume it, it shows
			copy(body, []byte("get "+key+"\r\nversion\r\n"))
			cls = verb + "-big"
		}
		flags := uint32(r.Pick(0, 1, 0x10, 0x204, int(r.Uint64()&0x7ffeffff)))
		if g.SmallFlags {
			flags = uint32(r.Pick(0, 1, 0x10, 0x204, r.Intn(10000)))
		}
		rev := int32(0)
		if r.Intn(6) == 0 {
			rev = int32(r.Range(1, 60))
		}
		if g.NegativeRev && r.Intn(12) == 0 {
			rev = -int32(r.Range(1, 9))
			cls = verb + "-negative-rev"
		}
		var raw []byte
		if verb == "cas" {
			raw = []byte(fmt.Sprintf("cas %s %d %d %d %d%s\r\n", key, flags, rev, len(body), r.Intn(1000), nrs))
		} else {
			raw = []byte(fmt.Sprintf("%s %s %d %d %d%s\r\n", verb, key, flags, rev, len(body), nrs))
		}
		raw = append(raw, body...)
		raw = append(raw, '\r', '\n')
		if nr {
			cls += "-noreply"
		}
		return (&Cmd{Verb: verb, Kind: "store", Class: cls, Keys: []string{key}, Val: body, Flags: flags, Rev: rev, NoReply: nr, Raw: raw}).finish()
	case x < 60:
		cls := "delete"
		if nr {
			cls += "-noreply"
		}
		return (&Cmd{Verb: "delete", Kind: "delete", Class: cls, Keys: []string{key}, NoReply: nr, Raw: []byte("delete " + key + nrs + "\r\n")}).finish()
	case x < 68:
		d := int64(r.Pick(1, 1, 5, 0, 1000000))
		cls := "incr"
		if nr {
			cls += "-noreply"
		}
		return (&Cmd{Verb: "incr", Kind: "arith", Class: cls, Keys: []string{key}, Delta: d, NoReply: nr, Raw: []byte(fmt.Sprintf("incr %s %d%s\r\n", key, d, nrs))}).finish()
	case x < 70:
		// a counter value to incr later
		body := []byte(fmt.Sprint(r.Range(0, 100000)))
		raw := []byte(fmt.Sprintf("set %s %d 0 %d\r\n%s\r\n", key, ref.FlagIncr, len(body), body))
		return (&Cmd{Verb: "set", Kind: "store", Class: "set-counter", Keys: []string{key}, Val: body, Flags: ref.FlagIncr, Raw: raw}).finish()
	case x < 76:
		n := r.Range(0, 40)
		p := "@" + hexPath(r, n)
		cls := "get-path<=16"
		if n > 16 {
			cls = "get-path>16"
		}
		return (&Cmd{Verb: "get", Kind: "get", Class: cls, Keys: []string{p}, Special: true, Raw: []byte("get " + p + "\r\n")}).finish()
	case x < 82:
		p := []string{"?" + key, "??" + key, "?", "??", "?" + strings.Repeat("k", r.Range(1, 40)), "@@" + hexPath(r, 16), "@@" + hexPath(r, r.Range(0, 30)), "@collision_x", "@collision_all_x", "@zz", "@"}[r.Intn(11)]
		return (&Cmd{Verb: "get", Kind: "get", Class: "get-special", Keys: []string{p}, Special: true, Raw: []byte("get " + p + "\r\n")}).finish()
	case x < 85:
		return (&Cmd{Verb: "stats", Kind: "stats", Class: "stats", Raw: []byte([]string{"stats\r\n", "stats cmd_get\r\n", "stats curr_items total_items\r\n"}[r.Intn(3)])}).finish()
	case x < 88:
		return (&Cmd{Verb: "version", Kind: "version", Class: "version", Raw: []byte("version\r\n")}).finish()
	case x < 90:
		return (&Cmd{Verb: "verbosity", Kind: "ok", Class: "verbosity", Raw: []byte([]string{"verbosity 1\r\n", "verbosity\r\n", "flush_all\r\n"}[r.Intn(3)])}).finish()
	case x < 94:
		verb := []string{"foo", "gc", "optimize", "GET", "touch", "stat"}[r.Intn(6)]
		return (&Cmd{Verb: verb, Kind: "unknown", Class: "unknown-verb", Raw: []byte(verb + " " + key + " 1 2\r\n")}).finish()
	case x < 96:
		body := GenBody(r, 50)
		raw := []byte(fmt.Sprintf("append %s 0 0 %d\r\n", key, len(body)))
		raw = append(append(raw, body...), '\r', '\n')
		return (&Cmd{Verb: "append", Kind: "store", Class: "append", Keys: []string{key}, Val: body, Raw: raw}).finish()
	case x < 97:
		lk := strings.Repeat("L", r.Range(251, 300))
		return (&Cmd{Verb: "get", Kind: "get", Class: "get-long-key", Keys: []string{lk}, Special: true, Raw: []byte("get " + lk + "\r\n")}).finish()
	default:
		if g.AllowQuit && last {
			switch r.Intn(4) {
			case 0:
				return (&Cmd{Verb: "quit", Kind: "unknown", Class: "quit", Closes: true, Raw: []byte("quit\r\n")}).finish()
			case 1:
				return (&Cmd{Verb: "decr", Kind: "arith", Class: "decr", Keys: []string{key}, Closes: true, Raw: []byte("decr " + key + " 1\r\n")}).finish()
			case 2:
				body := GenBody(r, 30)
				raw := []byte(fmt.Sprintf("prepend %s 0 0 %d\r\n", key, len(body)))
				raw = append(append(raw, body...), '\r', '\n')
				return (&Cmd{Verb: "prepend", Kind: "store", Class: "prepend", Keys: []string{key}, Closes: true, Raw: raw}).finish()
			}
		}
		bad := []string{"x", "-", "1e3", "99999999999999999999999"}[r.Intn(4)]
		return (&Cmd{Verb: "incr", Kind: "arith", Class: "incr-bad-number", Keys: []string{key}, Special: true, Raw: []byte("incr " + key + " " + bad + "\r\n")}).finish()
	}
}
