package proto

import (
	"bytes"
	"errors"
	"fmt"
	"strconv"
	"strings"
)

// Reply is one parsed server reply.
type Reply struct {
	Kind   string // values | status | number | stats | version | error
	Status string // first word of a one-line reply
	Line   string
	Items  []Value
	Num    int64
	Len    int // bytes consumed
}

type Value struct {
	Key    string
	Flags  uint64
	Data   []byte
	HasCas bool
	Cas    uint64
}

var ErrIncomplete = errors.New("incomplete reply")

type MalformedError struct{ Why string }

func (e *MalformedError) Error() string { return "malformed reply: " + e.Why }

func bad(format string, a ...interface{}) error { return &MalformedError{fmt.Sprintf(format, a...)} }

// line returns the next CRLF-terminated line (without the CRLF).
func line(b []byte) (string, int, error) {
	i := bytes.IndexByte(b, '\n')
	if i < 0 {
		if len(b) > 8192 {
			return "", 0, bad("line longer than 8192 bytes without terminator")
		}
		return "", 0, ErrIncomplete
	}
	if i == 0 || b[i-1] != '\r' {
		return "", 0, bad("line %q ends with a bare LF", trunc(b[:i+1]))
	}
	l := string(b[:i-1])
	if strings.ContainsAny(l, "\r\x00") {
		return "", 0, bad("control byte inside reply line %q", trunc(b[:i+1]))
	}
	return l, i + 1, nil
}

// lineLoose is line() for replies to malformed input: the server echoes
// client-supplied tokens (e.g. "stats <name>") verbatim, so a bare CR inside a
// line is tolerated there; the line must still end in CRLF.
func lineLoose(b []byte) (string, int, error) {
	i := bytes.IndexByte(b, '\n')
	if i < 0 {
		if len(b) > 1<<20 {
			return "", 0, bad("line longer than 1 MB without terminator")
		}
		return "", 0, ErrIncomplete
	}
	if i == 0 || b[i-1] != '\r' {
		return "", 0, bad("line %q ends with a bare LF", trunc(b[:i+1]))
	}
	return string(b[:i-1]), i + 1, nil
}

func trunc(b []byte) string {
	if len(b) > 80 {
		return string(b[:80]) + "..."
	}
	return string(b)
}

func isErrorLine(l string) bool {
	return l == "ERROR" || strings.HasPrefix(l, "CLIENT_ERROR ") || strings.HasPrefix(l, "SERVER_ERROR ") || l == "CLIENT_ERROR" || l == "SERVER_ERROR"
}

// ParseReply parses the reply to one command of the given kind from the start
// of b. Kinds: get, gets, store, delete, arith, stats, version, ok, unknown.
func ParseReply(b []byte, kind string) (*Reply, error) {
	switch kind {
	case "get", "gets":
		r := &Reply{Kind: "values"}
		off := 0
		for {
			l, n, err := line(b[off:])
			if err != nil {
				return nil, err
			}
			off += n
			if l == "END" {
				r.Len = off
				return r, nil
			}
			if isErrorLine(l) && len(r.Items) == 0 {
				return &Reply{Kind: "error", Status: strings.Fields(l)[0], Line: l, Len: off}, nil
			}
			f := strings.Split(l, " ")
			if f[0] != "VALUE" {
				return nil, bad("expected VALUE or END, got %q", l)
			}
			want := 4
			if kind == "gets" {
				want = 5
			}
			if len(f) != want {
				return nil, bad("VALUE line %q has %d fields, want %d for %s", l, len(f), want, kind)
			}
			flags, e1 := strconv.ParseUint(f[2], 10, 64)
			size, e2 := strconv.ParseUint(f[3], 10, 31)
			if e1 != nil || e2 != nil || f[1] == "" {
				return nil, bad("VALUE line %q has non-numeric flags or length", l)
			}
			v := Value{Key: f[1], Flags: flags}
			if kind == "gets" {
				c, e := strconv.ParseUint(f[4], 10, 64)
				if e != nil {
					return nil, bad("VALUE line %q has a non-numeric cas", l)
				}
				v.HasCas, v.Cas = true, c
			}
			if len(b[off:]) < int(size)+2 {
				return nil, ErrIncomplete
			}
			v.Data = append([]byte(nil), b[off:off+int(size)]...)
			if b[off+int(size)] != '\r' || b[off+int(size)+1] != '\n' {
				return nil, bad("data block of %q (%d bytes) is not followed by CRLF", v.Key, size)
			}
			off += int(size) + 2
			r.Items = append(r.Items, v)
		}
	case "stats":
		r := &Reply{Kind: "stats"}
		off := 0
		for {
			l, n, err := line(b[off:])
			if err != nil {
				return nil, err
			}
			off += n
			if l == "END" {
				r.Len = off
				return r, nil
			}
			if isErrorLine(l) {
				return &Reply{Kind: "error", Status: strings.Fields(l)[0], Line: l, Len: off}, nil
			}
			f := strings.Split(l, " ")
			if f[0] != "STAT" || len(f) < 3 {
				return nil, bad("expected STAT or END, got %q", l)
			}
		}
	}
	l, n, err := line(b)
	if err != nil {
		return nil, err
	}
	if isErrorLine(l) {
		return &Reply{Kind: "error", Status: strings.Fields(l)[0], Line: l, Len: n}, nil
	}
	r := &Reply{Kind: "status", Status: l, Line: l, Len: n}
	switch kind {
	case "store":
		switch l {
		case "STORED", "NOT_STORED", "EXISTS", "NOT_FOUND":
			return r, nil
		}
	case "delete":
		switch l {
		case "DELETED", "NOT_FOUND":
			return r, nil
		}
	case "arith":
		if l == "NOT_FOUND" {
			return r, nil
		}
		if v, e := strconv.ParseInt(l, 10, 64); e == nil {
			r.Kind, r.Num = "number", v
			return r, nil
		}
	case "version":
		if strings.HasPrefix(l, "VERSION ") {
			r.Kind = "version"
			return r, nil
		}
	case "ok":
		if l == "OK" {
			return r, nil
		}
	case "unknown":
		// an unsupported verb must be answered with an error line (handled above)
	}
	return nil, bad("reply %q is not a valid reply to a %s command", l, kind)
}

// ScanGeneric walks a reply stream without knowing which commands produced it
// and checks that it consists of syntactically valid reply units only (used for
// mutated input, where command boundaries are not known to the client).
func ScanGeneric(b []byte) (units int, err error) {
	off := 0
	for off < len(b) {
		l, n, e := lineLoose(b[off:])
		if e != nil {
			return units, e
		}
		off += n
		f := strings.Split(l, " ")
		switch {
		case f[0] == "VALUE":
			if len(f) != 4 && len(f) != 5 {
				return units, bad("VALUE line %q", l)
			}
			size, e2 := strconv.ParseUint(f[3], 10, 31)
			if _, e1 := strconv.ParseUint(f[2], 10, 64); e1 != nil || e2 != nil {
				return units, bad("VALUE line %q", l)
			}
			if len(b[off:]) < int(size)+2 {
				return units, ErrIncomplete
			}
			if b[off+int(size)] != '\r' || b[off+int(size)+1] != '\n' {
				return units, bad("data block after %q not followed by CRLF", l)
			}
			off += int(size) + 2
			continue
		case l == "END", l == "STORED", l == "NOT_STORED", l == "EXISTS", l == "NOT_FOUND", l == "DELETED", l == "OK", isErrorLine(l),
			f[0] == "VERSION" && len(f) >= 2, f[0] == "STAT" && len(f) >= 3, l == "running", l == "none":
		default:
			if _, e := strconv.ParseInt(l, 10, 64); e != nil {
				return units, bad("line %q is not a valid reply", l)
			}
		}
		units++
	}
	return units, nil
}
