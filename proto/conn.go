// Package proto holds the protocol-side machinery of the verification harness:
// an instrumented in-memory duplex connection that knows when the server side
// is blocked reading an empty input (logical quiescence, no timeouts), a
// generator of memcached text-protocol streams and a strict reply parser
// written independently of the server's own parser.
package proto

import (
	"errors"
	"io"
	"net"
	"sync"
	"time"
)

type addr string

func (a addr) Network() string { return "vf" }
func (a addr) String() string  { return string(a) }

// Conn is handed to the server as its net.Conn. The client half is driven
// through Send / CloseWrite / Output.
type Conn struct {
	mu       sync.Mutex
	cond     *sync.Cond
	in       []byte // client -> server, not yet read by the server
	out      []byte // server -> client
	inClosed bool   // client closed its sending side (server sees EOF after draining)
	srvClose bool   // server closed the connection
	waiting  bool   // server is blocked in Read with nothing buffered
	reads    int64
	name     string
}

func NewConn(name string) *Conn {
	c := &Conn{name: name}
	c.cond = sync.NewCond(&c.mu)
	return c
}

// ---- server side (net.Conn) ----

func (c *Conn) Read(p []byte) (int, error) {
	c.mu.Lock()
	defer c.mu.Unlock()
	for len(c.in) == 0 {
		if c.inClosed || c.srvClose {
			return 0, io.EOF
		}
		c.waiting = true
		c.cond.Broadcast()
		c.cond.Wait()
	}
	c.waiting = false
	n := copy(p, c.in)
	c.in = c.in[n:]
	c.reads++
	return n, nil
}

func (c *Conn) Write(p []byte) (int, error) {
	c.mu.Lock()
	defer c.mu.Unlock()
	if c.srvClose {
		return 0, errors.New("write on closed connection")
	}
	c.out = append(c.out, p...)
	return len(p), nil
}

func (c *Conn) Close() error {
	c.mu.Lock()
	c.srvClose = true
	c.cond.Broadcast()
	c.mu.Unlock()
	return nil
}

func (c *Conn) LocalAddr() net.Addr                { return addr("server") }
func (c *Conn) RemoteAddr() net.Addr               { return addr(c.name) }
func (c *Conn) SetDeadline(t time.Time) error      { return nil }
func (c *Conn) SetReadDeadline(t time.Time) error  { return nil }
func (c *Conn) SetWriteDeadline(t time.Time) error { return nil }

// ---- client side ----

// Send makes bytes available to the server.
func (c *Conn) Send(b []byte) {
	c.mu.Lock()
	c.in = append(c.in, b...)
	c.waiting = false
	c.cond.Broadcast()
	c.mu.Unlock()
}

// CloseWrite: the client will send nothing more (the server reads EOF).
func (c *Conn) CloseWrite() {
	c.mu.Lock()
	c.inClosed = true
	c.cond.Broadcast()
	c.mu.Unlock()
}

// WaitIdle blocks until the server has consumed all input and is blocked in
// Read again, or has closed the connection. It returns false when the generous
// wall-clock watchdog fires (inconclusive, never a verdict).
func (c *Conn) WaitIdle(max time.Duration) (idle bool) {
	deadline := time.Now().Add(max)
	timer := time.AfterFunc(max, func() {
		c.mu.Lock()
		c.cond.Broadcast()
		c.mu.Unlock()
	})
	defer timer.Stop()
	c.mu.Lock()
	defer c.mu.Unlock()
	for !(c.srvClose || (c.waiting && len(c.in) == 0)) {
		if time.Now().After(deadline) {
			return false
		}
		c.cond.Wait()
	}
	return true
}

// Output returns everything the server has written so far.
func (c *Conn) Output() []byte {
	c.mu.Lock()
	defer c.mu.Unlock()
	return append([]byte(nil), c.out...)
}

func (c *Conn) ServerClosed() bool {
	c.mu.Lock()
	defer c.mu.Unlock()
	return c.srvClose
}

// Unread reports how many sent bytes the server has not read.
func (c *Conn) Unread() int {
	c.mu.Lock()
	defer c.mu.Unlock()
	return len(c.in)
}
