package model

import (
	"fmt"
	"strconv"

	"verif/ref"
)

type GenOpts struct {
	NKeys         int
	NOps          int
	MaxVal        int  // largest value size
	BigPct        int  // percent of sets using a value above 4K
	Restart       bool // insert restarts
	GC            bool // insert gc passes
	Maint         bool // flush / hints interleaved
	MaintPct      int  // percent of ops that are maintenance
	ExtraKeys     []string
	NoIncr        bool
	NoRev         bool
	InvalidKeyPct int
	Variants      string // restart ops carry this variants mode
}

const keyChars = "abcdefghijklmnopqrstuvwxyzABCDEFGHIJKLMNOPQRSTUVWXYZ0123456789_-/:.!#$%&*+,;<=>[]^{|}~"

// GenKeys returns n distinct valid keys mixing the boundary lengths, bytes
// >= 0x80, punctuation and shared prefixes.
func GenKeys(r *ref.Rand, n int) []string {
	seen := map[string]bool{}
	var keys []string
	prefix := "shared/prefix/"
	for len(keys) < n {
		var k string
		switch r.Intn(10) {
		case 0:
			k = string(keyChars[r.Intn(len(keyChars))])
		case 1:
			k = randKey(r, 2)
		case 2:
			k = randKey(r, 249)
		case 3:
			k = randKey(r, 250)
		case 4:
			b := r.Bytes(r.Range(3, 12))
			for i := range b {
				b[i] |= 0x80 // invalid UTF-8: decoded as U+FFFD, which is neither space nor control
				if b[i] == 0xc2 {
					b[i] = 0xe0
				}
			}
			k = "hi" + string(b)
		case 5, 6:
			k = prefix + randKey(r, r.Range(1, 6))
		case 7:
			k = "\xe4\xb8\xad\xe6\x96\x87/" + randKey(r, r.Range(1, 5)) // valid multi-byte UTF-8
		default:
			k = randKey(r, r.Range(3, 40))
		}
		if !ref.ValidKey(k) || seen[k] {
			continue
		}
		seen[k] = true
		keys = append(keys, k)
	}
	return keys
}

func randKey(r *ref.Rand, l int) string {
	b := make([]byte, l)
	for i := range b {
		b[i] = keyChars[r.Intn(len(keyChars))]
	}
	if b[0] == '?' || b[0] == '@' {
		b[0] = 'k'
	}
	return string(b)
}

// InvalidKeys are keys the store must refuse.
var InvalidKeys = []string{"has space", "tab\there", "ctl\x01x", "nl\nx", "?meta", "@path", " lead", "uni space", "uni\u0085ctl"}

// GenValue picks a value whose record size lands around the boundaries that
// matter (256/512 block sizes, 4K C-allocation threshold, 10K compression
// probe, 64K).
func GenValue(r *ref.Rand, key string, o *GenOpts, seq int) *ref.ValueSpec {
	class := ref.ValueClasses[r.Intn(len(ref.ValueClasses))]
	var n int
	kl := len(key)
	switch r.Intn(12) {
	case 0:
		n = 0
	case 1, 2: // record size 24+kl+n around one and two blocks
		n = r.Pick(255, 256, 257, 511, 512, 513) - 24 - kl
	case 3:
		n = r.Pick(4095, 4096, 4097)
	case 4:
		n = r.Pick(10239, 10240, 10241, 10240+300)
	case 5:
		if r.Chance(o.BigPct) {
			n = r.Range(4096, o.MaxVal)
		} else {
			n = r.Range(0, 2000)
		}
	case 6:
		n = r.Range(1, 30)
	default:
		n = r.Range(0, 700)
	}
	if n < 0 {
		n = 0
	}
	if n > o.MaxVal {
		n = o.MaxVal
	}
	return &ref.ValueSpec{Class: class, Size: n, Seed: r.Uint64(), Tag: fmt.Sprintf("%d", seq)}
}

func GenFlag(r *ref.Rand) uint32 {
	switch r.Intn(8) {
	case 0:
		return 0
	case 1:
		return 0x10 // client-compressed
	case 2:
		return 1
	case 3:
		return ref.FlagIncr
	case 4:
		return uint32(r.Uint64()) &^ ref.FlagCompress & 0x7fffffff // the text protocol parses flags with Atoi into an int
	}
	return uint32(r.Intn(64)) &^ 0x10
}

// GenHistory builds one history over the given keys.
func GenHistory(r *ref.Rand, keys []string, o GenOpts) []Op {
	var ops []Op
	vers := map[string]int32{} // rough knowledge to choose interesting revisions
	pick := func() string { return keys[r.Intn(len(keys))] }
	seq := 0
	for len(ops) < o.NOps {
		x := r.Intn(100)
		if o.Maint && x < o.MaintPct {
			wFlush, wFlush0, wHints, wRestart, wGC := 30, 6, 16, 0, 0
			if o.Restart {
				wRestart = 20
			}
			if o.GC {
				wGC = 30
			}
			m := r.Intn(wFlush + wFlush0 + wHints + wRestart + wGC)
			switch {
			case m < wFlush:
				ops = append(ops, Op{K: "flush"})
			case m < wFlush+wFlush0:
				ops = append(ops, Op{K: "flush0"})
			case m < wFlush+wFlush0+wHints:
				ops = append(ops, Op{K: "hints"})
			case m < wFlush+wFlush0+wHints+wRestart:
				rm := []string{"", "", "all", "hash", "s", "m", "rand:" + strconv.FormatUint(r.Uint64()%1000000, 10), "rand:" + strconv.FormatUint(r.Uint64()%1000000, 10)}[r.Intn(8)]
				ops = append(ops, Op{K: "restart", Rm: rm, Variants: o.Variants})
			default:
				ops = append(ops, Op{K: "flush"}, Op{K: "gc", Sel: r.Uint64() % 1000000, Merge: r.Bool()})
			}
			continue
		}
		key := pick()
		if o.InvalidKeyPct > 0 && r.Chance(o.InvalidKeyPct) {
			key = InvalidKeys[r.Intn(len(InvalidKeys))]
		}
		y := r.Intn(100)
		switch {
		case y < 45:
			seq++
			op := Op{K: "set", Key: key, Val: GenValue(r, key, &o, seq), Flag: GenFlag(r)}
			if !o.NoRev && r.Intn(5) == 0 {
				v := vers[key]
				if v < 0 {
					v = -v
				}
				op.Rev = []int32{v + 1, v + 5, v, v - 1, 1, v + 100}[r.Intn(6)]
				if op.Rev <= 0 {
					op.Rev = 1
				}
			}
			if r.Intn(6) == 0 && len(ops) > 0 {
				// re-set the same value (exercises check_vhash) possibly with a revision
				for j := len(ops) - 1; j >= 0 && j > len(ops)-30; j-- {
					if ops[j].K == "set" && ops[j].Key == key {
						op.Val = ops[j].Val
						break
					}
				}
			}
			vers[key]++
			if op.Rev > vers[key] {
				vers[key] = op.Rev
			}
			ops = append(ops, op)
		case y < 60:
			ops = append(ops, Op{K: "del", Key: key})
			vers[key]++
		case y < 68 && !o.NoIncr:
			if r.Intn(3) == 0 {
				// make it a counter first
				ops = append(ops, Op{K: "set", Key: key, Val: &ref.ValueSpec{Class: "num", Raw: strconv.Itoa(r.Range(-1000, 100000))}, Flag: ref.FlagIncr})
			} else if r.Intn(8) == 0 {
				ops = append(ops, Op{K: "set", Key: key, Val: &ref.ValueSpec{Class: "num", Raw: []string{"12abc", "", "99999999999999999999999", " 7", "+5"}[r.Intn(5)]}, Flag: ref.FlagIncr})
			}
			ops = append(ops, Op{K: "incr", Key: key, D: r.Pick(1, 1, 5, -3, 1000000, 0)})
			vers[key]++
		case y < 85:
			ops = append(ops, Op{K: "get", Key: key})
		case y < 92:
			n := r.Range(2, 6)
			ks := make([]string, n)
			for i := range ks {
				ks[i] = pick()
			}
			if r.Bool() {
				ks[n-1] = ks[0] // duplicate
			}
			if r.Intn(3) == 0 {
				ks = append(ks, "never-written-key")
			}
			ops = append(ops, Op{K: "mget", Keys: ks})
		default:
			ops = append(ops, Op{K: "meta", Key: key})
		}
	}
	return ops
}

// GenGCScenario builds a staged history aimed at the interplay of successive GC
// passes, deletes and index rebuilds: fill several files; rebuild; collect the
// low files; delete and overwrite keys whose older versions stay in low files;
// rebuild (tombstones leave the tree); collect a range that does not begin at
// the first file; rebuild and read everything back; then some free-form traffic.
func GenGCScenario(r *ref.Rand, keys []string, o GenOpts) []Op {
	var ops []Op
	seq := 0
	set := func(k string) {
		seq++
		ops = append(ops, Op{K: "set", Key: k, Val: &ref.ValueSpec{Class: ref.ValueClasses[r.Intn(4)], Size: r.Range(20, o.MaxVal), Seed: r.Uint64(), Tag: fmt.Sprint(seq)}, Flag: GenFlag(r)})
	}
	rounds := r.Range(2, 4)
	for i := 0; i < rounds; i++ {
		for _, k := range keys {
			if r.Intn(5) > 0 {
				set(k)
			}
		}
		ops = append(ops, Op{K: "flush"})
	}
	ops = append(ops, Op{K: "restart", Rm: []string{"all", "hash"}[r.Intn(2)]})
	ops = append(ops, Op{K: "gc", Sel: r.Uint64() % 1000, Merge: r.Bool(), Pref: "low"})
	for _, k := range keys {
		switch r.Intn(4) {
		case 0, 1:
			ops = append(ops, Op{K: "del", Key: k})
		case 2:
			set(k)
		}
	}
	for i := r.Range(2, 8); i > 0; i-- {
		set(keys[r.Intn(len(keys))])
	}
	ops = append(ops, Op{K: "flush"})
	ops = append(ops, Op{K: "restart", Rm: []string{"all", "hash", "hash"}[r.Intn(3)]})
	ops = append(ops, Op{K: "gc", Sel: r.Uint64() % 1000, Merge: r.Bool(), Pref: "high"})
	ops = append(ops, Op{K: "restart", Rm: "all"})
	if r.Bool() {
		ops = append(ops, Op{K: "gc", Sel: r.Uint64() % 1000, Merge: r.Bool(), Pref: []string{"", "low", "high"}[r.Intn(3)]}, Op{K: "restart", Rm: "all"})
	}
	tail := o
	tail.NOps = r.Range(5, 20)
	ops = append(ops, GenHistory(r, keys, tail)...)
	return ops
}
