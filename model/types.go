// Package model drives a store-like system under test (SUT) with generated
// histories and compares every reply with the reference map of ref.RefMap.
// It knows nothing about gobeansdb's internals: the harness implements SUT on
// the real StorageClient/HStore.
package model

import (
	"verif/ref"
)

// Op is one step of a history. Everything needed to re-execute it is in the
// struct, so a replay file is just a list of Ops plus the configuration.
type Op struct {
	K     string         `json:"k"` // set del incr get mget meta flush flush0 hints restart gc check damage
	Key   string         `json:"key,omitempty"`
	Keys  []string       `json:"keys,omitempty"`
	Val   *ref.ValueSpec `json:"val,omitempty"`
	Flag  uint32         `json:"flag,omitempty"`
	Rev   int32          `json:"rev,omitempty"`
	D     int            `json:"d,omitempty"`
	Rm    string         `json:"rm,omitempty"`  // restart: which index files to delete ("", all, hash, s, m, rand:<seed>)
	Sel   uint64         `json:"sel,omitempty"` // gc: picks one of the legal ranges at run time
	Merge bool           `json:"merge,omitempty"`
	Pref  string         `json:"pref,omitempty"` // gc: preferred kind of range: "", "low" (begins at the first file), "high" (does not begin at the first file)
	// restart: also reopen the same closed directory once per index-file subset
	// ("" none, "sample", "exhaustive") and compare every variant with the model
	Variants string `json:"variants,omitempty"`
}

type Item struct {
	Val  []byte
	Flag uint32
}

type Meta struct {
	Ver    int32
	Vhash  uint16
	Flag   uint32
	Len    int
	TS     uint32
	Chunk  int
	Offset uint32
}

// SUT is the boundary at which replies are observed.
type SUT interface {
	Set(key string, val []byte, flag uint32, rev int32) (stored bool, err error)
	Delete(key string) (deleted bool, err error)
	Incr(key string, delta int) (int, error)
	Get(key string) (*Item, error) // nil, nil = miss
	GetMulti(keys []string) (map[string]*Item, error)
	Meta(key string) (*Meta, error) // nil, nil = not found
	Flush(force bool) error
	DumpHints() error
	// Restart closes the store and reopens it (from a copy of its directory in
	// which the index files selected by rm were deleted).
	Restart(rm string) (removed []string, err error)
	// GC runs one pass over a legal range selected by sel; ran=false when the
	// store has no legal range.
	GC(sel uint64, merge bool, pref string) (info string, ran bool, err error)
	// Info classifies where the key's current record lives (observed, not assumed).
	Info(key string) (residence string, compressed bool)
}

// Damager is implemented by SUTs that can corrupt, on disk, one record that is no
// key's current record (a superseded value or an outdated tombstone in a flushed,
// rotated data file). Nothing any key reads may change by that.
type Damager interface {
	Damage(sel uint64) (info string, done bool)
}

// VariantRestarter is implemented by SUTs that can reopen one closed directory
// several times, each time with another subset of index files deleted. probe is
// called while the variant is open; the main variant (rm) stays open at the end.
type VariantRestarter interface {
	RestartVariants(rm, mode string, probe func(label string)) (removed []string, nvariants int, err error)
}

// Reporter is implemented by vfc.Result.
type Reporter interface {
	Violate(caseID, sig, detail string, replay interface{})
	Event(name string, n int64)
	Seen(sig string)
	Eval(n int)
}
