package model

import (
	"bytes"
	"fmt"
	"sort"
	"strings"

	"verif/ref"
)

type Options struct {
	Prefix string // signature prefix, e.g. "c01"
	// Colliding lists keys that share their 64-bit hash with another key of the
	// history: their versions are not compared and the status of a delete is
	// recorded but not judged (C13 carve-outs).
	Colliding map[string]bool
	Groups    [][]string // same-hash groups (for violation signatures)
	Replay    interface{}
	// AfterOp, when set, runs after every executed op (used by C03/C18 monitors).
	AfterOp func(i int, op Op, r *Runner)
	// FullCheckEvery: sweep all keys every n ops (0 = only on "check" ops and at the end).
	FullCheckEvery int
	// Route, when set, names the index structure through which the store would
	// serve a (colliding) key right now; it becomes part of the anomaly signature
	// so that known findings are tied to a mechanism, not just to a symptom.
	Route func(key string) string
}

type Runner struct {
	S    SUT
	M    *ref.RefMap
	Rep  Reporter
	Case string
	Opt  Options

	lastGCMerge   bool
	verUncertain  map[string]bool  // version moved without a data write (check_vhash tree-only update)
	lastDataVer   map[string]int32 // version of the last data write
	tombUncertain map[string]bool  // tombstone that a tree rebuild may have dropped
	phase         map[string]string
	everWritten   map[string]bool
	lastWriteOp   map[string]int    // op index of the key's last accepted write/delete
	lastKind      map[string]string // "set" | "del"
	groupOf       map[string]int
	valueOwners   map[uint64]map[string]bool // fingerprint of every value ever accepted -> keys it was written to
	anomalous     map[string]bool            // colliding keys that already showed an anomaly (later ones are follow-ups)
	Trace         []string
	failed        bool
	nops          int
	Restarts, GCs int
}

func NewRunner(s SUT, m *ref.RefMap, rep Reporter, caseID string, opt Options) *Runner {
	r := &Runner{S: s, M: m, Rep: rep, Case: caseID, Opt: opt, verUncertain: map[string]bool{}, lastDataVer: map[string]int32{},
		tombUncertain: map[string]bool{}, phase: map[string]string{}, everWritten: map[string]bool{}, lastWriteOp: map[string]int{}, lastKind: map[string]string{}, groupOf: map[string]int{}, valueOwners: map[uint64]map[string]bool{}, anomalous: map[string]bool{}}
	for gi, g := range opt.Groups {
		for _, k := range g {
			r.groupOf[k] = gi + 1
		}
	}
	return r
}

func fingerprint(b []byte) uint64 {
	return uint64(ref.CRC32(b))<<32 | uint64(ref.Fnv1aSigned(b)) ^ uint64(len(b))<<16
}

func (r *Runner) remember(key string, val []byte) {
	fp := fingerprint(val)
	if r.valueOwners[fp] == nil {
		r.valueOwners[fp] = map[string]bool{}
	}
	r.valueOwners[fp][key] = true
}

// classify tells whose bytes a wrong read returned: an older value of the same
// key, a value written to another key (of the same hash group or not), or bytes
// that were never written at all.
func (r *Runner) classify(key string, got []byte) string {
	owners := r.valueOwners[fingerprint(got)]
	switch {
	case len(owners) == 0:
		return "unknown-bytes"
	case owners[key]:
		return "stale-own"
	}
	gi := r.groupOf[key]
	for k := range owners {
		if gi != 0 && r.groupOf[k] == gi {
			return "foreign-sibling"
		}
	}
	return "foreign-other-key"
}

// relation describes, for a colliding key, what happened to the other members
// of its same-hash group since the key's own last accepted write.
func (r *Runner) relation(key string) string {
	gi := r.groupOf[key]
	if gi == 0 {
		return ""
	}
	mine, ok := r.lastWriteOp[key]
	if !ok {
		mine = -1
	}
	rel := "sib-none"
	for _, k := range r.Opt.Groups[gi-1] {
		if k == key {
			continue
		}
		if op, ok := r.lastWriteOp[k]; ok && op > mine {
			if r.lastKind[k] == "del" {
				return "sib-del-later"
			}
			rel = "sib-set-later"
		}
	}
	return rel
}

// softViolate reports an anomaly of a colliding key and lets the history go on
// (the model is re-synchronised with the observation by the caller).
func (r *Runner) softViolate(key, sig, format string, a ...interface{}) {
	if r.anomalous[key] {
		// the key's visibility already diverged once; what follows is a
		// consequence of that (the store may show or hide such a key again
		// without any write), reported under one follow-up class
		sig = "follow-up:" + sig
	}
	r.anomalous[key] = true
	detail := fmt.Sprintf(format, a...)
	tr := r.Trace
	if len(tr) > 40 {
		tr = tr[len(tr)-40:]
	}
	detail += "\n-- last operations --\n" + strings.Join(tr, "\n")
	r.Rep.Violate(r.Case, r.Opt.Prefix+":"+sig, detail, r.Opt.Replay)
	r.tracef("!! %s (colliding key, model re-synchronised with the observation)", sig)
}

func (r *Runner) Failed() bool { return r.failed }

func (r *Runner) violate(sig, format string, a ...interface{}) {
	r.failed = true
	detail := fmt.Sprintf(format, a...)
	tr := r.Trace
	if len(tr) > 40 {
		tr = tr[len(tr)-40:]
	}
	detail += "\n-- last operations --\n" + strings.Join(tr, "\n")
	r.Rep.Violate(r.Case, r.Opt.Prefix+":"+sig, detail, r.Opt.Replay)
}

func (r *Runner) tracef(format string, a ...interface{}) {
	r.Trace = append(r.Trace, fmt.Sprintf("%4d ", r.nops)+fmt.Sprintf(format, a...))
}

func sizeClass(n int) string {
	switch {
	case n == 0:
		return "0"
	case n <= 200:
		return "<=200"
	case n <= 512:
		return "<=512"
	case n < 4096:
		return "<4K"
	case n < 10240:
		return "<10K"
	case n < 65536:
		return "<64K"
	}
	return ">=64K"
}

// Run executes the history. It stops at the first violation (the rest of the
// history would only produce follow-up noise).
func (r *Runner) Run(ops []Op) bool {
	for i, op := range ops {
		r.nops = i
		r.step(i, op)
		if r.failed {
			return false
		}
		if r.Opt.AfterOp != nil {
			r.Opt.AfterOp(i, op, r)
			if r.failed {
				return false
			}
		}
		if r.Opt.FullCheckEvery > 0 && (i+1)%r.Opt.FullCheckEvery == 0 {
			r.CheckAll("periodic")
			if r.failed {
				return false
			}
		}
	}
	r.CheckAll("final")
	return !r.failed
}

func (r *Runner) setPhaseAll(p string) {
	for k := range r.M.M {
		r.phase[k] = p
	}
}

func (r *Runner) step(i int, op Op) {
	r.Rep.Eval(1)
	r.Rep.Event("op."+op.K, 1)
	switch op.K {
	case "set":
		val := op.Val.Build()
		exp := r.M.Set(op.Key, val, op.Flag, op.Rev)
		stored, err := r.S.Set(op.Key, val, op.Flag, op.Rev)
		r.tracef("set %q %s flag %#x rev %d -> stored=%v err=%v (model: accepted=%v treeonly=%v ver=%d)", short(op.Key), op.Val, op.Flag, op.Rev, stored, err, exp.Accepted, exp.TreeOnly, exp.Ver)
		if err != nil {
			r.violate("set-error", "set %q returned error: %v", op.Key, err)
			return
		}
		if stored != exp.Stored {
			r.violate("set-status", "set %q: stored=%v, reference says %v", op.Key, stored, exp.Stored)
			return
		}
		switch {
		case exp.Accepted:
			r.remember(op.Key, val)
			r.lastWriteOp[op.Key], r.lastKind[op.Key] = i, "set"
			r.everWritten[op.Key] = true
			r.verUncertain[op.Key] = false
			r.tombUncertain[op.Key] = false
			r.lastDataVer[op.Key] = exp.Ver
			r.phase[op.Key] = "none"
			if op.Rev != 0 {
				r.Rep.Event("set.explicit_rev.accepted", 1)
			}
		case exp.TreeOnly:
			r.Rep.Event("set.same_vhash_not_rewritten", 1)
			if op.Rev != 0 && exp.Ver != r.lastDataVer[op.Key] {
				r.verUncertain[op.Key] = true
			}
		default:
			if op.Rev != 0 {
				r.Rep.Event("set.explicit_rev.rejected", 1)
			}
		}
		r.checkKey(op.Key, "after-set")
	case "del":
		before := r.M.M[op.Key]
		exp := r.M.Delete(op.Key)
		droute := ""
		if r.Opt.Colliding[op.Key] && r.Opt.Route != nil {
			droute = ":via-" + r.Opt.Route(op.Key)
		}
		deleted, err := r.S.Delete(op.Key)
		r.tracef("delete %q -> deleted=%v err=%v (model %v)", short(op.Key), deleted, err, exp)
		if err != nil {
			r.violate("delete-error", "delete %q returned error: %v", op.Key, err)
			return
		}
		if r.Opt.Colliding[op.Key] && deleted != exp {
			// the reply is recorded as an anomaly of its own class and the model
			// follows the store, so that what is judged afterwards (liveness and
			// value of every member) is judged against the reply the client got
			if deleted {
				r.softViolate(op.Key, "delete-accepted-for-absent-key:colliding:"+r.relation(op.Key)+droute, "delete %q returned DELETED although this key is not live in the reference (%s)", op.Key, descr(before))
				r.M.M[op.Key] = &ref.Entry{Ver: -1}
				r.M.LastWrite[op.Key] = ref.Entry{Ver: -1}
				exp = true
			} else {
				r.softViolate(op.Key, "delete-refused-for-live-key:colliding:"+r.relation(op.Key)+droute, "delete %q returned NOT_FOUND although the key is live in the reference (%s)", op.Key, descr(before))
				if before != nil {
					cp := *before
					r.M.M[op.Key] = &cp
					r.M.LastWrite[op.Key] = cp
				}
				exp = false
			}
		} else if deleted != exp {
			r.violate("delete-status", "delete %q: deleted=%v, reference says %v", op.Key, deleted, exp)
			return
		}
		if exp {
			r.lastWriteOp[op.Key], r.lastKind[op.Key] = i, "del"
			r.Rep.Event("del.deleted", 1)
			r.verUncertain[op.Key] = false
			r.lastDataVer[op.Key] = r.M.M[op.Key].Ver
			r.phase[op.Key] = "none"
		} else {
			r.Rep.Event("del.not_found", 1)
		}
		r.checkKey(op.Key, "after-delete")
	case "incr":
		before := r.M.M[op.Key]
		cls := "missing"
		if before != nil && before.Ver < 0 {
			cls = "tombstone"
		} else if before != nil {
			cls = "live"
		}
		expVal, wrote := r.M.Incr(op.Key, op.D)
		iroute := ""
		if r.Opt.Colliding[op.Key] && r.Opt.Route != nil {
			iroute = ":via-" + r.Opt.Route(op.Key)
		}
		got, err := r.S.Incr(op.Key, op.D)
		r.tracef("incr %q %d -> %d err=%v (model %d wrote=%v, key was %s)", short(op.Key), op.D, got, err, expVal, wrote, cls)
		if err != nil {
			r.violate("incr-error", "incr %q returned error: %v", op.Key, err)
			return
		}
		if got != expVal {
			if r.Opt.Colliding[op.Key] {
				r.softViolate(op.Key, "incr-value:colliding:"+r.relation(op.Key)+iroute, "incr %q by %d returned %d, reference says %d (key was %s)", op.Key, op.D, got, expVal, cls)
				// re-synchronise with what the store now serves
				it, _ := r.S.Get(op.Key)
				if it != nil {
					r.M.M[op.Key] = &ref.Entry{Ver: 1, Value: it.Val, Flag: it.Flag}
					if m, _ := r.S.Meta(op.Key); m != nil && m.Ver > 0 {
						r.M.M[op.Key].Ver = m.Ver
					}
				} else {
					delete(r.M.M, op.Key)
				}
				return
			}
			r.violate("incr-value", "incr %q by %d returned %d, reference says %d (key was %s)", op.Key, op.D, got, expVal, cls)
			return
		}
		if wrote {
			cls += "-written"
			r.remember(op.Key, r.M.M[op.Key].Value)
			r.lastWriteOp[op.Key], r.lastKind[op.Key] = i, "set"
			r.everWritten[op.Key] = true
			r.verUncertain[op.Key] = false
			r.tombUncertain[op.Key] = false
			r.phase[op.Key] = "none"
			// the version after an incr is adopted from the observation
			m, err := r.S.Meta(op.Key)
			if err != nil || m == nil || m.Ver <= 0 {
				r.violate("incr-meta", "after incr of %q the meta-get says %+v err %v (expected a live record)", op.Key, m, err)
				return
			}
			r.M.M[op.Key].Ver = m.Ver
			r.M.LastWrite[op.Key] = *r.M.M[op.Key]
			r.lastDataVer[op.Key] = m.Ver
		} else {
			cls += "-refused"
		}
		r.Rep.Event("incr."+cls, 1)
		r.checkKey(op.Key, "after-incr")
	case "get":
		r.checkKey(op.Key, "get")
	case "meta":
		r.checkKey(op.Key, "meta")
	case "mget":
		got, err := r.S.GetMulti(op.Keys)
		r.tracef("mget %d keys -> %d items err=%v", len(op.Keys), len(got), err)
		if err != nil {
			r.violate("mget-error", "multi-get returned error: %v", err)
			return
		}
		want := map[string]bool{}
		for _, k := range op.Keys {
			if r.Opt.Colliding[k] {
				want[k] = true // judged by the single-key checks (soft, with re-synchronisation)
				continue
			}
			if v, f, ok := r.M.Get(k); ok {
				want[k] = true
				it := got[k]
				if it == nil {
					r.violate("mget-miss-live", "multi-get misses live key %q", k)
					return
				}
				if !bytes.Equal(it.Val, v) || it.Flag != f {
					r.violate("mget-diff", "multi-get of %q: %s flag %#x want %#x", k, ref.DiffBytes(it.Val, v), it.Flag, f)
					return
				}
			}
		}
		for k := range got {
			if !want[k] {
				r.violate("mget-extra", "multi-get returned %q which the reference does not have as a live requested key", k)
				return
			}
		}
	case "flush":
		err := r.S.Flush(true)
		r.tracef("flush(force) err=%v", err)
		r.setPhaseAll("flush")
	case "flush0":
		err := r.S.Flush(false)
		r.tracef("flush(non-forced) err=%v", err)
	case "hints":
		err := r.S.DumpHints()
		r.tracef("hint dump/merge err=%v", err)
	case "restart":
		var removed []string
		var err error
		if vr, ok := r.S.(VariantRestarter); ok && op.Variants != "" {
			for k, e := range r.M.M {
				if e.Ver < 0 {
					r.tombUncertain[k] = true
				}
			}
			r.setPhaseAll("restart")
			var nv int
			removed, nv, err = vr.RestartVariants(op.Rm, op.Variants, func(label string) {
				// judge this variant against a private copy of the model state
				// (what is adopted may differ between variants)
				saveM, saveV, saveT := r.M, r.verUncertain, r.tombUncertain
				r.M = r.M.Clone()
				r.verUncertain = copyBools(saveV)
				r.tombUncertain = copyBools(saveT)
				r.tracef("variant %s", label)
				if !r.failed {
					r.CheckAll("variant-restart")
				}
				r.M, r.verUncertain, r.tombUncertain = saveM, saveV, saveT
			})
			r.Rep.Event("restart.variants", int64(nv))
		} else {
			removed, err = r.S.Restart(op.Rm)
		}
		if r.failed {
			return
		}
		r.Restarts++
		r.tracef("restart rm=%q removed=%v err=%v", op.Rm, removed, err)
		if err != nil {
			r.violate("restart-error", "reopen failed: %v", err)
			return
		}
		for k, e := range r.M.M {
			if e.Ver < 0 {
				r.tombUncertain[k] = true
			}
		}
		r.setPhaseAll("restart")
		r.Rep.Event("restart.rm."+rmClass(op.Rm), 1)
		r.CheckAll("after-restart")
		if r.M.CheckVHash && !r.failed {
			// the value hash kept in the (possibly rebuilt) index decides whether a set of the
			// same value is "not really set": probe it for a few live keys right after the restart
			var live []string
			for k, e := range r.M.M {
				if e.Ver > 0 && ref.ValidKey(k) {
					live = append(live, k)
				}
			}
			sort.Strings(live)
			for j := 0; j < 3 && len(live) > 0 && !r.failed; j++ {
				k := live[(i*7+j*13+len(live)/2)%len(live)]
				e := r.M.M[k]
				r.Rep.Event("restart.same_value_probes", 1)
				r.step(i, Op{K: "set", Key: k, Val: &ref.ValueSpec{Class: "raw", Raw: string(e.Value)}, Flag: e.Flag})
			}
		}
	case "gc":
		info, ran, err := r.S.GC(op.Sel, op.Merge, op.Pref)
		r.tracef("gc sel=%d merge=%v pref=%q -> ran=%v %s err=%v", op.Sel, op.Merge, op.Pref, ran, info, err)
		if err != nil {
			r.violate("gc-error", "gc failed: %v (%s)", err, info)
			return
		}
		if ran {
			r.GCs++
			r.setPhaseAll("gc")
			r.lastGCMerge = op.Merge
			r.Rep.Event("gc.passes", 1)
			r.CheckAll("after-gc")
		} else {
			r.Rep.Event("gc.no_legal_range", 1)
		}
	case "damage":
		if d, ok := r.S.(Damager); ok {
			info, done := d.Damage(op.Sel)
			r.tracef("damage sel=%d -> done=%v %s", op.Sel, done, info)
			if done {
				r.Rep.Event("damage.superseded_records", 1)
				r.CheckAll("after-damage")
			} else {
				r.Rep.Event("damage.no_candidate", 1)
			}
		}
	case "check":
		r.CheckAll("check")
	case "list":
		// a directory listing in the middle of a history: it only has to succeed
		// here; what it leaves behind in the tree's cached node state is judged by
		// the listings taken at the end of the history
		_, err := r.S.Get("@" + op.Key)
		r.tracef("list @%s err=%v", op.Key, err)
		if err != nil {
			r.violate("list-error", "get @%s returned error: %v", op.Key, err)
			return
		}
		r.Rep.Event("list.mid_history", 1)
	default:
		r.violate("bad-op", "unknown op %q", op.K)
	}
}

// Step executes one op (for harnesses that interleave their own checks).
func (r *Runner) Step(op Op) {
	r.step(r.nops, op)
	r.nops++
}

// MarkRestart tells the runner that the store was reopened by the harness
// itself (outside a "restart" op).
func (r *Runner) MarkRestart(phase string) {
	for k, e := range r.M.M {
		if e.Ver < 0 {
			r.tombUncertain[k] = true
		}
	}
	r.setPhaseAll(phase)
	r.Restarts++
}

// Fail reports a violation found by a harness-side monitor; sig carries its own
// property prefix (e.g. "c18:...").
func (r *Runner) Fail(sig, detail string) {
	r.failed = true
	tr := r.Trace
	if len(tr) > 40 {
		tr = tr[len(tr)-40:]
	}
	r.Rep.Violate(r.Case, sig, detail+"\n-- last operations --\n"+strings.Join(tr, "\n"), r.Opt.Replay)
}

// Tracef lets harness code add lines to the operation trace.
func (r *Runner) Tracef(format string, a ...interface{}) { r.tracef(format, a...) }

func copyBools(m map[string]bool) map[string]bool {
	c := make(map[string]bool, len(m))
	for k, v := range m {
		c[k] = v
	}
	return c
}

func rmClass(rm string) string {
	if rm == "" {
		return "none"
	}
	if i := strings.Index(rm, ":"); i >= 0 {
		return rm[:i]
	}
	return rm
}

func short(k string) string {
	if len(k) > 24 {
		return k[:10] + ".." + k[len(k)-10:] + fmt.Sprintf("(%d)", len(k))
	}
	return k
}

// CheckAll sweeps every key the history has touched.
func (r *Runner) CheckAll(why string) {
	keys := r.M.Keys()
	for k := range r.everWritten {
		if _, ok := r.M.M[k]; !ok {
			keys = append(keys, k)
		}
	}
	sort.Strings(keys)
	for _, k := range keys {
		r.checkKey(k, why)
		if r.failed {
			return
		}
	}
}

// checkKey compares get and meta-get of one key with the reference map.
func (r *Runner) checkKey(key, why string) {
	r.Rep.Eval(1)
	if !ref.ValidKey(key) {
		if key == "" || key[0] == '?' || key[0] == '@' {
			return // these prefixes select meta-get / directory listing, not a key
		}
		it, err := r.S.Get(key)
		if it != nil {
			r.violate("get-hit-invalid-key", "[%s] get of invalid key %q returned a value (err %v)", why, key, err)
		}
		return
	}
	e := r.M.M[key]
	ph := r.phase[key]
	if ph == "" {
		ph = "none"
	}
	var it *Item
	var m *Meta
	var err error
	resync := false
	coll := r.Opt.Colliding[key]
	route := ""
	if coll && r.Opt.Route != nil {
		// through which index structure the store is about to serve this key
		// (taken before the get, which may itself register the collision)
		route = ":via-" + r.Opt.Route(key)
	}
	// bad reports a mismatch. For a colliding key it is recorded under its own
	// signature class and the model is re-synchronised with what the store
	// serves, so that the rest of the history keeps being judged.
	bad := func(sig, format string, a ...interface{}) {
		if coll {
			resync = true
			cph := ph
			if ph == "gc" && !r.lastGCMerge {
				// a pass that was asked not to merge the hint files first has no
				// way to learn about same-hash groups it has not met yet
				cph = "gc-nomerge"
			}
			r.softViolate(key, strings.Replace(sig, ":"+ph, "", 1)+":"+cph+":colliding:"+r.relation(key)+route, format, a...)
			return
		}
		r.violate(sig, format, a...)
	}
	defer func() {
		if !resync {
			return
		}
		switch {
		case it != nil:
			v := int32(1)
			if m != nil && m.Ver > 0 {
				v = m.Ver
			}
			r.M.M[key] = &ref.Entry{Ver: v, Value: it.Val, Flag: it.Flag}
		case m != nil && m.Ver < 0:
			r.M.M[key] = &ref.Entry{Ver: m.Ver}
		case err == nil:
			delete(r.M.M, key)
		}
	}()
	it, err = r.S.Get(key)
	if err != nil {
		bad("get-error:"+ph, "[%s] get %q returned error: %v (reference: %s)", why, key, err, descr(e))
		return
	}
	live := e != nil && e.Ver > 0
	if live {
		if it == nil {
			bad("get-miss-live:"+ph, "[%s] get %q is a miss, reference has %s", why, key, descr(e))
			return
		}
		if !bytes.Equal(it.Val, e.Value) {
			bad("get-value-"+r.classify(key, it.Val)+":"+ph, "[%s] get %q returned other bytes than the last accepted write (%s): %s; got %s..., reference %s", why, key, r.classify(key, it.Val), ref.DiffBytes(it.Val, e.Value), preview(it.Val), descr(e))
			return
		}
		if it.Flag != e.Flag {
			bad("get-flags:"+ph, "[%s] get %q returned flags %#x, last accepted write had %#x", why, key, it.Flag, e.Flag)
			return
		}
	} else if it != nil {
		sig := "get-hit-deleted:"
		if e == nil {
			sig = "get-hit-never-written:"
		}
		bad(strings.TrimSuffix(sig, ":")+"-"+r.classify(key, it.Val)+":"+ph, "[%s] get %q returned a value (%d bytes, %s..., %s) but the reference says %s", why, key, len(it.Val), preview(it.Val), r.classify(key, it.Val), descr(e))
		return
	}
	m, err = r.S.Meta(key)
	if err != nil {
		bad("meta-error:"+ph, "[%s] meta-get %q returned error: %v", why, key, err)
		return
	}
	res, comp := "absent", false
	if m != nil {
		res, comp = r.S.Info(key)
	}
	colliding := r.Opt.Colliding[key]
	switch {
	case live:
		if m == nil {
			bad("meta-miss-live:"+ph, "[%s] meta-get %q finds nothing, reference has %s", why, key, descr(e))
			return
		}
		if m.Ver <= 0 {
			bad("meta-ver-sign:"+ph, "[%s] meta-get %q says version %d for a live key (%s)", why, key, m.Ver, descr(e))
			return
		}
		if !colliding && m.Ver != e.Ver {
			if r.verUncertain[key] && m.Ver == r.lastDataVer[key] {
				// tree-only version change lost by a tree rebuild: allowed by the quantifier
				e.Ver = m.Ver
				r.verUncertain[key] = false
				r.Rep.Event("adopt.treeonly_version_reverted", 1)
			} else {
				bad("meta-version:"+ph, "[%s] meta-get %q says version %d, reference says %d (%s)", why, key, m.Ver, e.Ver, descr(e))
				return
			}
		}
		if wv := ref.ValueHash(e.Value); m.Vhash != wv || m.Flag != e.Flag || m.Len != len(e.Value) {
			bad("meta-fields:"+ph, "[%s] meta-get %q says vhash %d flag %#x len %d; reference vhash %d flag %#x len %d", why, key, m.Vhash, m.Flag, m.Len, wv, e.Flag, len(e.Value))
			return
		}
		if m.Offset%256 != 0 {
			bad("meta-align", "[%s] position of %q is (%d,%d): not 256-aligned", why, key, m.Chunk, m.Offset)
			return
		}
		c := "plain"
		if comp {
			c = "compressed"
		}
		r.Rep.Event("read."+res, 1)
		r.Rep.Event("read."+c, 1)
		r.Rep.Seen(fmt.Sprintf("%s/%s/%s/%s/%s", why, res, c, sizeClass(len(e.Value)), ph))
	case e != nil: // tombstone
		if m == nil {
			if r.tombUncertain[key] {
				delete(r.M.M, key) // dropped by a tree rebuild: adopt
				r.tombUncertain[key] = false
				r.Rep.Event("adopt.tombstone_dropped", 1)
			} else if !colliding {
				bad("meta-miss-tombstone:"+ph, "[%s] meta-get %q finds nothing, reference has %s and no restart happened since", why, key, descr(e))
				return
			}
		} else {
			if m.Ver >= 0 {
				bad("meta-live-deleted:"+ph, "[%s] meta-get %q says version %d for a deleted key (%s)", why, key, m.Ver, descr(e))
				return
			}
			if !colliding && m.Ver != e.Ver {
				if r.tombUncertain[key] {
					e.Ver = m.Ver
					r.Rep.Event("adopt.tombstone_version", 1)
				} else {
					bad("meta-tomb-version:"+ph, "[%s] meta-get %q says version %d, reference says %d", why, key, m.Ver, e.Ver)
					return
				}
			}
			r.tombUncertain[key] = false
			r.Rep.Event("read.tombstone."+res, 1)
			r.Rep.Seen(fmt.Sprintf("%s/tombstone/%s/%s", why, res, ph))
		}
	default: // never written (or adopted as dropped)
		if m != nil {
			if colliding {
				return
			}
			if m.Ver > 0 {
				bad("meta-live-unknown:"+ph, "[%s] meta-get %q says live version %d but the reference has no such key", why, key, m.Ver)
				return
			}
			// a tombstone the model believed dropped is still there: adopt it
			if r.everWritten[key] {
				r.M.M[key] = &ref.Entry{Ver: m.Ver}
				r.Rep.Event("adopt.tombstone_reappeared_in_meta", 1)
			} else {
				bad("meta-tomb-unknown:"+ph, "[%s] meta-get %q shows a tombstone (version %d) for a key never written", why, key, m.Ver)
			}
		}
	}
}

func descr(e *ref.Entry) string {
	if e == nil {
		return "no entry (never written)"
	}
	if e.Ver < 0 {
		return fmt.Sprintf("tombstone version %d", e.Ver)
	}
	return fmt.Sprintf("live version %d flag %#x value %d bytes (%s...)", e.Ver, e.Flag, len(e.Value), preview(e.Value))
}

func preview(b []byte) string {
	if len(b) > 24 {
		b = b[:24]
	}
	return fmt.Sprintf("%q", b)
}
