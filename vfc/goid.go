package vfc

import (
	"bytes"
	"runtime"
	"strconv"
)

// GoID returns the id of the calling goroutine (parsed from its stack header;
// used by schedule-control hooks to tell the client goroutine from the store's
// own background goroutines).
func GoID() int64 {
	var buf [64]byte
	n := runtime.Stack(buf[:], false)
	f := bytes.Fields(buf[:n])
	if len(f) < 2 {
		return -1
	}
	id, _ := strconv.ParseInt(string(f[1]), 10, 64)
	return id
}
