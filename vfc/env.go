package vfc

import "encoding/json"

// Env is what the child main hands to a harness mode.
type Env struct {
	Mode string
	Seed uint64
	Args string
	Work string // scratch directory owned by this child
	Only string // when set, run only the case with this id
	Res  *Result
}

func (e *Env) ParseArgs(v interface{}) {
	if e.Args == "" {
		return
	}
	if err := json.Unmarshal([]byte(e.Args), v); err != nil {
		e.Res.Inconc("bad args: " + err.Error())
	}
}

// Want tells whether the case id should run (honours -only).
func (e *Env) Want(caseID string) bool {
	return e.Only == "" || e.Only == caseID
}
