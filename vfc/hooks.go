//go:build verif

package vfc

import (
	"sync"
	"sync/atomic"
	"time"

	"github.com/douban/gobeansdb/vhook"
)

// Hooks is the process-wide hook multiplexer: it counts every hook point,
// tracks the store's own background goroutines (open-time hint rebuild,
// post-rotation flush, asynchronous merge) and forwards to optional callbacks.
type Hooks struct {
	mu     sync.Mutex
	counts map[string]int64

	rebuildEnter, rebuildExit int64
	bgflushSpawn, bgflushExit int64
	flushOld                  int64 // chunk-specific flushes issued synchronously by Close
	mergeSpawn, mergeExit     int64
	flushEnter, flushExit     int64
	gcEnter, gcExit           int64

	point atomic.Value // func(name string, a, b int64, s string)
	fs    atomic.Value // func(phase int, op, path string, off, n int64)
	mem   atomic.Value // func(op string, addr uintptr, n int)
}

var theHooks *Hooks
var hooksOnce sync.Once

// InstallHooks installs (once) and returns the multiplexer.
func InstallHooks() *Hooks {
	hooksOnce.Do(func() {
		h := &Hooks{counts: map[string]int64{}}
		theHooks = h
		vhook.Install(&vhook.Handlers{Point: h.onPoint, FS: h.onFS, Mem: h.onMem})
	})
	return theHooks
}

func (h *Hooks) onPoint(name string, a, b int64, s string) {
	h.mu.Lock()
	h.counts[name]++
	h.mu.Unlock()
	switch name {
	case "bucket.bgRebuild.enter":
		atomic.AddInt64(&h.rebuildEnter, 1)
	case "bucket.bgRebuild.exit":
		atomic.AddInt64(&h.rebuildExit, 1)
	case "data.bgflush.spawn":
		atomic.AddInt64(&h.bgflushSpawn, 1)
	case "data.flushold":
		atomic.AddInt64(&h.flushOld, 1)
	case "data.flush.enter":
		atomic.AddInt64(&h.flushEnter, 1)
	case "data.flush.exit":
		atomic.AddInt64(&h.flushExit, 1)
		if b >= 0 { // only the post-rotation goroutine names a chunk
			atomic.AddInt64(&h.bgflushExit, 1)
		}
	case "hint.merge.spawn":
		atomic.AddInt64(&h.mergeSpawn, 1)
	case "hint.merge.exit":
		if s == "false" {
			atomic.AddInt64(&h.mergeExit, 1)
		}
	case "gc.enter":
		atomic.AddInt64(&h.gcEnter, 1)
	case "gc.exit":
		atomic.AddInt64(&h.gcExit, 1)
	}
	if f, _ := h.point.Load().(func(string, int64, int64, string)); f != nil {
		f(name, a, b, s)
	}
}

func (h *Hooks) onFS(phase int, op, path string, off, n int64) {
	if phase == 0 {
		h.mu.Lock()
		h.counts["fs."+op]++
		h.mu.Unlock()
	}
	if f, _ := h.fs.Load().(func(int, string, string, int64, int64)); f != nil {
		f(phase, op, path, off, n)
	}
}

func (h *Hooks) onMem(op string, addr uintptr, n int) {
	if f, _ := h.mem.Load().(func(string, uintptr, int)); f != nil {
		f(op, addr, n)
	}
}

func (h *Hooks) SetPoint(f func(name string, a, b int64, s string)) {
	if f == nil {
		f = func(string, int64, int64, string) {}
	}
	h.point.Store(f)
}

func (h *Hooks) SetFS(f func(phase int, op, path string, off, n int64)) {
	if f == nil {
		f = func(int, string, string, int64, int64) {}
	}
	h.fs.Store(f)
}

func (h *Hooks) SetMem(f func(op string, addr uintptr, n int)) {
	if f == nil {
		f = func(string, uintptr, int) {}
	}
	h.mem.Store(f)
}

func (h *Hooks) Count(name string) int64 {
	h.mu.Lock()
	defer h.mu.Unlock()
	return h.counts[name]
}

// Counts returns a copy of all hook hit counters.
func (h *Hooks) Counts() map[string]int64 {
	h.mu.Lock()
	defer h.mu.Unlock()
	m := make(map[string]int64, len(h.counts))
	for k, v := range h.counts {
		m[k] = v
	}
	return m
}

// Quiescent reports whether none of the store's own background goroutines is
// running (logical condition on enter/exit events, no timing involved).
func (h *Hooks) Quiescent() bool {
	return atomic.LoadInt64(&h.rebuildEnter) == atomic.LoadInt64(&h.rebuildExit) &&
		atomic.LoadInt64(&h.bgflushSpawn) == atomic.LoadInt64(&h.bgflushExit)-atomic.LoadInt64(&h.flushOld) &&
		atomic.LoadInt64(&h.mergeSpawn) == atomic.LoadInt64(&h.mergeExit) &&
		atomic.LoadInt64(&h.flushEnter) == atomic.LoadInt64(&h.flushExit) &&
		atomic.LoadInt64(&h.gcEnter) == atomic.LoadInt64(&h.gcExit)
}

// WaitQuiescent polls Quiescent; the generous wall-clock bound is a watchdog
// only (its firing makes the case inconclusive, never a violation).
func (h *Hooks) WaitQuiescent(max time.Duration) bool {
	deadline := time.Now().Add(max)
	for i := 0; ; i++ {
		if h.Quiescent() {
			return true
		}
		if time.Now().After(deadline) {
			return false
		}
		if i < 50 {
			time.Sleep(200 * time.Microsecond)
		} else {
			time.Sleep(2 * time.Millisecond)
		}
	}
}

func (h *Hooks) GCRunning() bool {
	return atomic.LoadInt64(&h.gcEnter) != atomic.LoadInt64(&h.gcExit)
}

// GCExits returns how many GC passes have finished so far.
func (h *Hooks) GCExits() int64 { return atomic.LoadInt64(&h.gcExit) }

// WaitGCExit waits until one more pass than `before` has finished.
func (h *Hooks) WaitGCExit(before int64, max time.Duration) bool {
	deadline := time.Now().Add(max)
	for atomic.LoadInt64(&h.gcExit) <= before {
		if time.Now().After(deadline) {
			return false
		}
		time.Sleep(500 * time.Microsecond)
	}
	return true
}
