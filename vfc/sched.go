//go:build verif

package vfc

import (
	"fmt"
	"hash/fnv"
	"runtime"
	"sync"
	"sync/atomic"
	"time"
)

// Sched widens and controls interleavings at the hook points.
//
// Perturb mode: every hook hit consults a decision derived from (seed, point,
// global hit index): nothing / Gosched x k / a short sleep. Park mode: a named
// trap parks the n-th hit of a point by a goroutine of a given role until it is
// released (deterministic orderings). All hits are folded into a signature of
// the global sequence of (role, point) events.
type Sched struct {
	seed    uint64
	level   int // 0 off, 1 light, 2 heavy
	counter uint64

	mu     sync.Mutex
	roles  map[int64]string
	traps  []*Trap
	sig    uint64
	events int64
	points map[string]bool // points subject to perturbation (nil = all)
}

type Trap struct {
	Name    string
	Role    string // "" = any goroutine that is not a registered client
	Point   string
	Nth     int    // 1-based hit number for that (role, point)
	Str     string // when set, only hits whose string argument equals it count
	hits    int
	parked  chan struct{} // closed when a goroutine is parked
	release chan struct{}
	armed   bool
	once    sync.Once
}

func NewSched(seed uint64, level int) *Sched {
	return &Sched{seed: seed, level: level, roles: map[int64]string{}}
}

func (s *Sched) SetRole(role string) {
	id := GoID()
	s.mu.Lock()
	s.roles[id] = role
	s.mu.Unlock()
}

func (s *Sched) OnlyPoints(points ...string) {
	s.points = map[string]bool{}
	for _, p := range points {
		s.points[p] = true
	}
}

// AddTrap registers a trap; it returns it for WaitParked/Release.
func (s *Sched) AddTrap(name, role, point string, nth int) *Trap {
	t := &Trap{Name: name, Role: role, Point: point, Nth: nth, parked: make(chan struct{}), release: make(chan struct{}), armed: true}
	s.mu.Lock()
	s.traps = append(s.traps, t)
	s.mu.Unlock()
	return t
}

// AddTrapStr is AddTrap restricted to hits carrying the given string argument
// (e.g. the key a GC step is working on).
func (s *Sched) AddTrapStr(name, role, point, str string, nth int) *Trap {
	t := &Trap{Name: name, Role: role, Point: point, Nth: nth, Str: str, parked: make(chan struct{}), release: make(chan struct{}), armed: true}
	s.mu.Lock()
	s.traps = append(s.traps, t)
	s.mu.Unlock()
	return t
}

// WaitParked waits until some goroutine sits in the trap (false on watchdog).
func (t *Trap) WaitParked(max time.Duration) bool {
	select {
	case <-t.parked:
		return true
	case <-time.After(max):
		return false
	}
}

func (t *Trap) Release() {
	t.once.Do(func() { close(t.release) })
}

// ReleaseAll opens every trap (end of a case).
func (s *Sched) ReleaseAll() {
	s.mu.Lock()
	traps := append([]*Trap(nil), s.traps...)
	for _, t := range traps {
		t.armed = false
	}
	s.mu.Unlock()
	for _, t := range traps {
		t.Release()
	}
}

func mix(x uint64) uint64 {
	x += 0x9E3779B97F4A7C15
	x = (x ^ (x >> 30)) * 0xBF58476D1CE4E5B9
	x = (x ^ (x >> 27)) * 0x94D049BB133111EB
	return x ^ (x >> 31)
}

// Hook is installed as the Point callback.
func (s *Sched) Hook(name string, a, b int64, str string) {
	id := GoID()
	s.mu.Lock()
	role := s.roles[id]
	if role == "" {
		role = "bg"
	}
	h := fnv.New64a()
	fmt.Fprintf(h, "%s|%s", role, name)
	s.sig = mix(s.sig ^ h.Sum64())
	s.events++
	var hit *Trap
	for _, t := range s.traps {
		if !t.armed || t.Point != name || t.Role != role || (t.Str != "" && t.Str != str) {
			continue
		}
		t.hits++
		if t.hits == t.Nth {
			t.armed = false
			hit = t
			break
		}
	}
	s.mu.Unlock()
	if hit != nil {
		close(hit.parked)
		<-hit.release
		return
	}
	if s.level == 0 || (s.points != nil && !s.points[name]) {
		return
	}
	n := atomic.AddUint64(&s.counter, 1)
	d := mix(s.seed ^ n*0x9E3779B97F4A7C15 ^ uint64(len(name))<<40)
	mod := uint64(8)
	if s.level >= 2 {
		mod = 4
	}
	switch d % mod {
	case 0:
		runtime.Gosched()
	case 1:
		for i := uint64(0); i < 1+(d>>8)%4; i++ {
			runtime.Gosched()
		}
	case 2:
		if (d>>16)%4 == 0 {
			time.Sleep(time.Duration(10+(d>>20)%300) * time.Microsecond)
		}
	}
}

// Signature returns the hash of the global (role, point) event sequence seen so far.
func (s *Sched) Signature() (sig uint64, events int64) {
	s.mu.Lock()
	defer s.mu.Unlock()
	return s.sig, s.events
}
