// Package vfc is the child-side support library of the verification harness:
// result collection, coverage counters and the progress marker that lets the
// driver attribute a child crash to the case that was running.
package vfc

import (
	"encoding/json"
	"fmt"
	"os"
	"sort"
	"sync"
)

type Violation struct {
	Case   string      `json:"case"`
	Sig    string      `json:"sig"` // short structured signature (known-findings matching)
	Detail string      `json:"detail"`
	Replay interface{} `json:"replay,omitempty"`
}

type Result struct {
	mu           sync.Mutex
	Mode         string           `json:"mode"`
	Seed         uint64           `json:"seed"`
	Args         string           `json:"args"`
	Evaluations  int64            `json:"evaluations"`
	Events       map[string]int64 `json:"events"`
	Distinct     map[string]int64 `json:"distinct"`
	Samples      []interface{}    `json:"samples"`
	Violations   []Violation      `json:"violations"`
	Inconclusive []string         `json:"inconclusive"`
	Notes        []string         `json:"notes"`
	Done         bool             `json:"done"`

	out       string
	maxSample int
	maxViol   int
}

func NewResult(mode string, seed uint64, args, out string) *Result {
	return &Result{Mode: mode, Seed: seed, Args: args, Events: map[string]int64{}, Distinct: map[string]int64{},
		out: out, maxSample: 3, maxViol: 20}
}

// Begin marks the case that is about to run (written to <out>.cur before it starts).
func (r *Result) Begin(caseID string, replay interface{}) {
	if r.out == "" {
		return
	}
	b, _ := json.Marshal(map[string]interface{}{"case": caseID, "replay": replay})
	os.WriteFile(r.out+".cur", b, 0644)
}

func (r *Result) Eval(n int) {
	r.mu.Lock()
	r.Evaluations += int64(n)
	r.mu.Unlock()
}

func (r *Result) Event(name string, n int64) {
	r.mu.Lock()
	r.Events[name] += n
	r.mu.Unlock()
}

// Seen records a distinct non-trivial case signature.
func (r *Result) Seen(sig string) {
	r.mu.Lock()
	r.Distinct[sig]++
	r.mu.Unlock()
}

func (r *Result) Sample(x interface{}) {
	r.mu.Lock()
	if len(r.Samples) < r.maxSample {
		r.Samples = append(r.Samples, x)
	}
	r.mu.Unlock()
}

func (r *Result) Violate(caseID, sig, detail string, replay interface{}) {
	r.mu.Lock()
	defer r.mu.Unlock()
	r.Events["violations"]++
	if len(r.Violations) < r.maxViol {
		if len(detail) > 9000 {
			detail = detail[:2000] + "\n...(truncated)...\n" + detail[len(detail)-7000:]
		}
		r.Violations = append(r.Violations, Violation{caseID, sig, detail, replay})
	}
}

func (r *Result) NViolations() int {
	r.mu.Lock()
	defer r.mu.Unlock()
	return int(r.Events["violations"])
}

func (r *Result) Inconc(msg string) {
	r.mu.Lock()
	r.Inconclusive = append(r.Inconclusive, msg)
	r.mu.Unlock()
}

func (r *Result) Note(format string, a ...interface{}) {
	r.mu.Lock()
	if len(r.Notes) < 50 {
		r.Notes = append(r.Notes, fmt.Sprintf(format, a...))
	}
	r.mu.Unlock()
}

func (r *Result) Write() error {
	r.mu.Lock()
	defer r.mu.Unlock()
	r.Done = true
	b, err := json.Marshal(r)
	if err != nil {
		return err
	}
	if r.out == "" {
		os.Stdout.Write(b)
		return nil
	}
	if err := os.WriteFile(r.out+".tmp", b, 0644); err != nil {
		return err
	}
	return os.Rename(r.out+".tmp", r.out)
}

// SortedKeys is a helper for deterministic iteration.
func SortedKeys(m map[string]int64) []string {
	ks := make([]string, 0, len(m))
	for k := range m {
		ks = append(ks, k)
	}
	sort.Strings(ks)
	return ks
}
