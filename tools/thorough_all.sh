#!/bin/bash
# usage: tools/thorough_all.sh [ids...]   - runs the thorough tier of every check once (default seed),
# prints one line per check and every signature that is not a known finding.
cd "$(dirname "$0")/.." || exit 2
ids="$@"; [ -z "$ids" ] && ids="C01 C02 C03 C04 C05 C06 C07 C08 C09 C10 C11 C12 C13 C14 C15 C16 C17 C18"
rc=0
for p in $ids; do
  out=$(./check $p thorough 2>&1); e=$?
  echo "$out" | grep -E "^$p tier"
  [ $e -ne 0 ] && { rc=1; echo "  exit $e"; echo "$out" | grep -E "by signature|VIOLATION|INCONCLUSIVE" | grep -v "known finding" | head -20; }
done
exit $rc
