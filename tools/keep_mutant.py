#!/usr/bin/env python3
"""usage: keep_mutant.py <worktree> <seeded id> <property> <needs...> -- <caught-by text>
Copies patch, demonstration and notes of a confirmed seeded change into /verif/seeded/<id>/."""
import sys, os, shutil, json, subprocess, glob
wt, sid, prop = sys.argv[1:4]
rest = sys.argv[4:]
i = rest.index('--')
needs, caught = ' '.join(rest[:i]), ' '.join(rest[i+1:])
d = '/verif/seeded/' + sid
os.makedirs(d, exist_ok=True)
shutil.copy(wt + '/MUTANT.patch', d + '/patch.diff')
demos = subprocess.run(['git', '-C', wt, 'status', '--short'], capture_output=True, text=True).stdout.split('\n')
demo_files = [l[3:] for l in demos if l.startswith('??') and (l.endswith('_test.go') or '/demo' in l)]
for f in demo_files:
    shutil.copy(os.path.join(wt, f), d + '/' + os.path.basename(f) + '.txt')
if os.path.exists(wt + '/NOTES.md'):
    shutil.copy(wt + '/NOTES.md', d + '/NOTES.md')
head = subprocess.run(['git', '-C', wt, 'rev-parse', '--short', 'HEAD'], capture_output=True, text=True).stdout.strip()
meta = {"id": sid, "property": prop, "base_commit": head, "needs_to_manifest": needs,
        "demonstration": [os.path.basename(f) + ' (package ' + os.path.dirname(f) + ')' for f in demo_files],
        "confirmed": "tools/confirm_mutant.sh: builds; demonstration fails with the change and passes without it; pinned suite passes with the change (run by the authoring agent and re-run here)",
        "checks": caught}
json.dump(meta, open(d + '/meta.json', 'w'), indent=1)
print('kept', d, demo_files)
