#!/bin/bash
# usage: tools/sweep.sh "<seeds>" [ids...]      e.g. tools/sweep.sh "1 2 3" C01 C04
# Runs the quick checks at several VERIF_SEED values and prints one line per run
# plus every signature that is not a listed known finding. Exit 1 if any run
# reported a violation or was inconclusive. Evidence files are rewritten by each
# run: finish with the default seed when the evidence is to be committed.
cd "$(dirname "$0")/.." || exit 2
seeds="$1"; shift
ids="$@"; [ -z "$ids" ] && ids="C01 C02 C03 C04 C05 C06 C07 C08 C09 C10 C11 C12 C13 C14 C15 C16 C17 C18"
rc=0
for s in $seeds; do
  for p in $ids; do
    out=$(VERIF_SEED=$s ./check $p quick 2>&1); e=$?
    echo "$out" | grep -E "^$p tier"
    [ $e -ne 0 ] && { rc=1; echo "$out" | grep -E "by signature|VIOLATION|INCONCLUSIVE" | grep -v "known finding" | head -12; }
  done
done
exit $rc
