#!/bin/bash
# usage: tools/confirm_mutant.sh <worktree> <demo test regex> [suite]
# Confirms a seeded change: builds, demo fails with the change, demo passes
# without it; with "suite" also runs the pinned suite with the change applied.
wt="$1"; re="$2"
export GOFLAGS=-mod=mod GOPROXY=off GOSUMDB=off GOTOOLCHAIN=local
cd "$wt" || exit 2
pkg=$(dirname $(git status --short | grep '^??' | grep '_test.go' | head -1 | awk '{print $2}'))
echo "worktree $wt demo package ./$pkg"
mkdir -p $wt/.tbase
base=""; [ "$pkg" = "store" ] && base="-args -base $wt/.tbase"
go build ./... || { echo BUILD-FAILED; exit 1; }
go test -vet=off -count=1 ./$pkg -run "$re" $base > .demo_with.log 2>&1; w=$?
git apply -R MUTANT.patch || { echo "cannot reverse patch"; exit 1; }
go test -vet=off -count=1 ./$pkg -run "$re" $base > .demo_without.log 2>&1; wo=$?
git apply MUTANT.patch
echo "demo with change: exit $w (want !=0); without: exit $wo (want 0)"
if [ "$3" = "suite" ]; then
  go test -vet=off -count=1 ./store -skip "$re" -args -base $wt/.tbase 2>&1 | tail -3
  go test -vet=off -count=1 ./memcache ./quicklz ./cmem ./utils ./loghub 2>&1 | tail -6
fi
