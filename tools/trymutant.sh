#!/bin/bash
# usage: tools/trymutant.sh <tree with the change applied> <C01 ...>   [VERIF_SEED=n]
# Runs the quick checks of the given properties against another source tree
# (VERIF_REPO) without touching /repo or the committed evidence.
tree="$1"; shift
cd "$(dirname "$0")/.." || exit 2
for p in "$@"; do
  out=$(VERIF_REPO="$tree" ./check "$p" quick 2>&1)
  echo "$out" | grep -E "by signature|^$p |INCONCLUSIVE|KNOWN-FINDING" | head -12
  echo "  -> exit $(echo "$out" | grep -c '^VIOLATION') VIOLATION lines"
done
