#!/usr/bin/env python3
"""Regenerates /verif/seeded/README.md from the meta.json files."""
import json, glob, os
rows = []
for f in sorted(glob.glob('/verif/seeded/*/meta.json')):
    m = json.load(open(f))
    rows.append(m)
out = ["# Seeded property-breaking changes\n",
       "Each directory holds one change to douban/gobeansdb that breaks one property while the project still",
       "compiles and the pinned suite still passes: `patch.diff` (apply with `git -C /repo apply`), the",
       "demonstration written by its author (a test that fails with the change and passes without it; stored as",
       "`*.go.txt` so that it is never compiled from here), the author's `NOTES.md` and `meta.json`. The changes",
       "were written by fresh sub-agents that saw only the property text and a scratch worktree, never /verif.",
       "None of them is committed to /repo.\n",
       "| id | property | needs, in order to manifest | what the checks did |",
       "|---|---|---|---|"]
for m in rows:
    out.append("| %s | %s | %s | %s |" % (m['id'], m['property'], m['needs_to_manifest'].replace('|', '\\|'), m['checks'].replace('|', '\\|')))
open('/verif/seeded/README.md', 'w').write('\n'.join(out) + '\n')
print(len(rows), 'seeded changes')
