#!/bin/bash
# usage: tools/revalidate_seeded.sh [check] [ids...]
# Re-validates every kept seeded change against the current /repo HEAD in a scratch
# worktree (removed afterwards): the patch applies and builds, its demonstration
# fails with the change and passes without it; with "check" the quick check of the
# property is also run against the changed tree (VERIF_REPO) and must report violations.
export GOFLAGS=-mod=mod GOPROXY=off GOSUMDB=off GOTOOLCHAIN=local
cd "$(dirname "$0")/.." || exit 2
V=$PWD
docheck=""; [ "$1" = "check" ] && { docheck=1; shift; }
ids="$@"; [ -z "$ids" ] && ids=$(ls seeded | grep -v README | grep -v "^_")
wt=/tmp/vf-seeded-$$
git -C /repo worktree add --detach $wt HEAD >/dev/null 2>&1 || exit 2
trap 'git -C /repo worktree remove --force '$wt' >/dev/null 2>&1' EXIT
rc=0
for id in $ids; do
  d=$V/seeded/$id; prop=${id%%-*}
  git -C $wt checkout -q -- . ; git -C $wt clean -fdq
  if ! git -C $wt apply $d/patch.diff 2>/dev/null; then echo "$id: PATCH DOES NOT APPLY"; rc=1; continue; fi
  pkg=$(python3 -c "import json;print(json.load(open('$d/meta.json'))['demonstration'][0].split('package ')[1].rstrip(')'))")
  for f in $d/*_test.go.txt; do cp $f $wt/$pkg/$(basename ${f%.txt}); done
  re=$(grep -ho '^func Test[A-Za-z0-9_]*' $d/*_test.go.txt | sed 's/func //' | paste -sd'|')
  base=""; [ "$pkg" = "store" ] && { mkdir -p $wt/.tb; base="-args -base $wt/.tb"; }
  (cd $wt && go build ./... ) || { echo "$id: BUILD FAILED"; rc=1; continue; }
  (cd $wt && go test -vet=off -count=1 ./$pkg -run "^($re)\$" $base >/dev/null 2>&1); w=$?
  git -C $wt apply -R $d/patch.diff
  (cd $wt && go test -vet=off -count=1 ./$pkg -run "^($re)\$" $base >/dev/null 2>&1); wo=$?
  res="demo with=$w without=$wo"
  [ $w -ne 0 ] && [ $wo -eq 0 ] || { res="$res  <-- DEMONSTRATION NO LONGER DISCRIMINATES"; rc=1; }
  if [ -n "$docheck" ]; then
    git -C $wt apply $d/patch.diff; rm -f $wt/$pkg/zz_demo_test.go $wt/$pkg/zz_*_test.go
    n=$(VERIF_REPO=$wt ./check $prop quick 2>&1 | grep -c '^VIOLATION')
    res="$res; $prop quick: $n VIOLATION lines"
    [ "$n" -gt 0 ] || { res="$res  <-- NOT CAUGHT"; rc=1; }
  fi
  echo "$id: $res"
done
exit $rc
