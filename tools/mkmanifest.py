#!/usr/bin/env python3
"""Regenerates /verif/MANIFEST.json from the table below (kept in one place so
that the manifest is always valid and current)."""
import json, subprocess, os

HOOK_COMMITS = subprocess.run(["git", "-C", "/repo", "log", "--format=%H %s", "--grep=^verif hooks"],
                              capture_output=True, text=True).stdout.strip().splitlines()

CHECKS = {
 # id: (level category, level text, design_ref, level_note, technique, has_thorough)
 "C16": ("exploration",
         "Differential runtime oracle: the store's key hash, value hash, FNV, Murmur and CRC functions are called on every 1- and 2-byte input (exhaustive) and on generated inputs of every length 0..4096 in four content classes plus CRC inputs up to 1 MB, and compared with independently written references that are validated against published vectors at start-up. Pure functions, so sampled inputs plus the exhaustive small-input sweep is the right level.",
         "DESIGN.md section 4 (C16)",
         "trusted: ref/hash.go (own signed FNV-1a, MurmurHash3-x86-32, bitwise CRC), Go's hash/crc32, the published test vectors in ref/vectors.go",
         "runtime differential oracle against independent reference implementations (plain + asan builds)"),
 "C09": ("fault_enumeration",
         "Round trip through both record writers compared byte-for-byte with an independent encoder, then a corruption campaign: for every file image up to 4 KB every byte position x {bit flip, 0x00, 0xff} and truncation at every length (exhaustive per image), sampled positions for larger images, multi-byte damage, zeroed blocks and size-field damage; every third image is written and scanned under a small body_max with values of exactly body_max and body_max-1 bytes; an independent decoder labels each record intact/damaged and the oracle checks positional reads and the sequential scan; for one damaged image in eight the records a second scan yields are re-written through the stream writer (what GC does with a source) and the copy must be the reference encoding of exactly the intact records, every returned offset aligned and readable by position. Fault enumeration per generated image, images sampled.",
         "DESIGN.md section 4 (C09)",
         "trusted: ref/record.go (documented record layout), hash/crc32; CRC collisions (2^-32) ignored",
         "fault injection (byte/bit corruption, truncation) with a reference-decoder oracle over positional and streaming reads (plain + asan builds)"),
 "C14": ("exploration",
         "Generated hint item multisets written through both hint writers, read back by the store's reader and by an independent parser, every present and a set of absent keys looked up through both index forms, k-way merges (sources with their own file id and sources that are further hint splits of one file) compared with a reference merge and the expected collision table.",
         "DESIGN.md section 4 (C14)",
         "trusted: ref/hint.go (hint layout and reference merge)",
         "in-package runtime differential oracle over generated hint files (reference parser + reference merge)"),
 "C01": ("exploration",
         "Generated single-client histories on the real StorageClient/HStore compared reply-by-reply with a reference map (get + meta-get after every write, periodic full sweeps), flush/rotation/hint dumps interleaved, one child per configuration of the grid; the residence of every read (buffer, rotated buffer, head file, rotated file; compressed or not) is observed and reported. Sampled histories: the right level for a property quantified over all histories.",
         "DESIGN.md section 4 (C01)",
         "trusted: ref.RefMap (version arithmetic written from the property), ref value generator; open dimensions (incr versions, tombstones after rebuild) adopted",
         "reference-model monitor (RefMap oracle) over generated histories, in-process at the StorageClient boundary"),
 "C02": ("exploration",
         "C01 histories (half of the configurations with flush_interval 60 as shipped in conf/global.yaml) with clean restarts at generated positions; at each restart the closed directory is reopened once per index-file subset (exhaustive 2^k when k<=5 in thorough) and every variant compared with the reference map; under check_vhash three live keys are set to their own value right after every restart (must be 'not really set': probes the value hash kept in rebuilt indexes); plus deterministic and randomized shutdown schedules: the post-rotation flush goroutine parked at its entry hook while Close() completes (directory copied at that instant), and flusher/hint-dumper loop bodies racing with Close under yield injection (plain and race builds). The server's own graceful shutdown is exercised with the real memcache.Server on loopback TCP (Main's sequence: Shutdown as the signal handler calls it, Serve returns, HStore.Close; the directory is copied when Close returns): clients write all the time, connections that are idle at the signal write again when Serve has returned or at the 1st..3rd file-system step of Close; every set acknowledged before Close returned must be served after reopening the copy.",
         "DESIGN.md section 4 (C02)",
         "restart = fresh store instance on a copy of the directory taken when Close returns (same process, globals re-initialised by NewHStore); tombstone versions adopted after restart as the quantifier allows",
         "reference-model monitor + index-file fault enumeration + hook-controlled shutdown schedules (park/release, yield injection) + race detector"),
 "C03": ("exploration",
         "Histories over many tiny data files with GC passes over run-time-enumerated legal ranges (merge on/off, via HStore.GC and via the GC manager), followed by writes, more passes and restarts with index subsets removed; half of the passes start with the newest acknowledged writes still in the head file's write buffer, and in half of the children some passes are preceded by bit rot in garbage (one byte of a superseded record inverted on disk); all keys read back against the reference map after every pass and restart, and an independent decoder confirms that each live key's record is where the tree points.",
         "DESIGN.md section 4 (C03)",
         "trusted: ref.RefMap, ref record decoder; store background goroutines quiescent before each pass (hook counters); record size <= half the data-file limit (a record larger than a whole data file is outside the quantifier)",
         "reference-model monitor over generated GC histories + independent on-disk decoder"),
 "C18": ("exploration",
         "After every completed pass of the C03 histories an independent scanner inspects all surviving files of the collected range and the appended part of an earlier destination: only current records (once each) or tombstones allowed by the reservation rule may remain; files outside the range and the earlier destination's old prefix are compared by sha1; an identical second pass must release nothing and change nothing.",
         "DESIGN.md section 4 (C18)",
         "trusted: ref record scanner, RefMap.LastWrite as definition of the current record; Go QuickLZ decoder used only to identify compressed survivors; non-colliding keys",
         "offline checker over on-disk state after each observed GC pass (independent record scanner + write-history oracle)"),
 "C13": ("exploration",
         "C01/C02/C03 histories with 1..3 groups of 2..4 keys forced onto one key hash (in-package hash override); value, flags and liveness of every key judged against the reference map after every step; wrong reads are classified by whose bytes were returned (older own value / sibling's / another key's / never written). The unchanged tree violates this property in several ways that have no small repair; each family is a known finding with its own signature (known_findings.json), anything else - in particular a foreign value or any anomaly before the first restart/GC - is reported.",
         "DESIGN.md section 4 (C13) and section 12",
         "colliding keys: revision 0 only, versions not compared, check_vhash off; after the first anomaly of a colliding key the model is re-synchronised with the observation and later anomalies of that key count as follow-ups",
         "reference-model monitor with same-hash key groups (hash override), wrong-read classifier"),
 "C08": ("exploration",
         "Tree level: random set/tombstone/remove histories on HTree with leaf populations crossing the 100-item and 256-key thresholds; every listing along sampled key paths (bucket root to 16 digits) is compared with an independent recomputation from the final content, with a second tree reaching the same content by another history, and with a dump+load copy. Store level: triples of real stores driven to one final content by different histories (permutation, redundant overwrites, delete-then-reset at a forced equal version, restart with tree dump loaded / everything rebuilt, GC passes) listed through 'get @prefix' including the upper tree over bucket roots.",
         "DESIGN.md section 4 (C08)",
         "trusted: ref/merkle.go (hash, count and listing rules written from the documented behaviour), ref.KeyHash/ValueHash (validated by C16)",
         "differential runtime oracle: reference recomputation + history-independence comparison of real trees/stores"),
 "C10": ("exploration",
         "Store level: values (arbitrary 32-bit client flags without the reserved bit) on both sides of every compression decision threshold (record size 256, 10 KB probe, ratio, sniffed audio types, client-compressed flag, up to 4 MB) set and read back from the write buffer, the flushed file and after restarts with rebuilt indexes, judged by the reference map; the stored record is inspected to report which way the server decided. Codec level: C<->Go round trips in both directions, including a value class whose only repeat lies at an exact boundary distance (255 .. 262145 bytes back: window and offset-field limits of the compressors). Hostile input: random, mutated, truncated and self-consistent-header streams fed to both safe decompressors in an asan-instrumented child (recover mode, every report classified).",
         "DESIGN.md section 4 (C10)",
         "asan instruments quicklz.c; QuickLZ's word-wise source fetch (fast_read, <= 3 bytes past the source) is classified informational, every other report is a violation; hostile claimed sizes capped at 16 MB",
         "reference-model monitor + cross-implementation differential + AddressSanitizer on hostile inputs"),
 "C15": ("exploration",
         "Real key hash with 1/16/256 buckets and served patterns none/one/subset/all: per-key before/after inventory (sha1) of every file below the home directory, independent scanner finds the record in the expected bucket directory, unserved buckets store nothing and miss, listings above/at/below bucket depth equal the reference aggregate of the served buckets, read-back after restart; for 16/256 buckets the served set is derived through the repository's route-table code from a generated route table, and after each pattern the same home is reopened with a smaller served set (data-holding buckets taken away must not be served).",
         "DESIGN.md section 4 (C15)",
         "trusted: ref.KeyHash/BucketOf, ref/merkle.go",
         "file-system inventory monitor + reference routing oracle"),
 "C11": ("exploration",
         "The real per-connection server loop backed by the real StorageClient on an instrumented in-memory connection (knows when the server is blocked reading an empty input). Grammar streams (all verbs of the property, special '@'/'?' keys of every length, binary bodies, command lines up to more than 8 KB (multi-get of up to 90 keys), pipelined in chunkings from 1 byte to all at once) under a strict oracle: exactly one syntactically valid reply per command in order (independent reply parser), none for noreply, values and flags equal to the reference map; mutated streams under the weaker oracle (no wedge, syntactically valid output, later connections unaffected); request/response serialise-parse round trips.",
         "DESIGN.md section 4 (C11)",
         "in-memory net.Conn instead of TCP; timeout_ms raised so wall-clock timeout replies cannot fire; a memory-shortage refusal (NOT_STORED) of a large set is accepted as a legitimate reply",
         "online protocol monitor: independent reply-grammar parser + reference map over generated and mutated byte streams; logical-quiescence detection instead of timeouts"),
 "C12": ("exploration",
         "Same server harness; observed state = the four published buffer counters (count and size), request tokens available vs capacity, and a registry of live C blocks fed by alloc/free hooks (leak, double free, free of unknown block; poison on free). Attribution mode runs one command at a time and asserts zero at logical quiescence after each, attributing any delta to the command class (verb x key state x noreply x value above/below the C-allocation threshold); the same assertion after every mutated stream (all error stages) and after 8-connection stress, in plain, race and asan builds. One job lowers timeout_ms to 40 ms and sends store commands whose body arrives after the timeout (slow clients: the server's RECV_TIMEOUT path); the same zero rule applies.",
         "DESIGN.md section 4 (C12)",
         "quiescence is logical (server goroutine blocked in Read on empty input, forced flush done, background hook counters balanced); client flags carrying the server-reserved bit are excluded as the property states",
         "conservation monitor over hooked allocator state and published counters at logical quiescence, per-command attribution; race detector + AddressSanitizer on the same workloads"),
 "C04": ("exploration",
         "Concurrent histories recorded at the HStore boundary with a global logical clock, self-describing values and poison-on-free; per key two independent checkers (version rules, porcupine with a sequential register model); background flusher and hint dumper loops and rotations run beside the clients; schedule reach from seeded yield/sleep injection at the store's hook points and 9 deterministic park/release orderings over append, publication to the write buffer, tree update, flush write, buffer detach, buffer free and read-by-position; the four buffer counters must be zero at quiescence after every history and ordering; the same workloads under -race (reports classified by racing source line against a list of protected objects) and -asan. The same property is also recorded at the text-protocol boundary: 2..10 connections on the real per-connection server loop issue set / delete / get / multi-get / meta-get on shared keys, replies parsed by the independent reply parser, per-key histories checked by porcupine with a register model whose writes report no version, accounting and tokens checked at quiescence (plain, race, asan).",
         "DESIGN.md sections 4 (C04), 5 and 15",
         "Go scheduler not controlled (random-schedule cases are statistical; evidence reports distinct schedule signatures); C-memory races only via asan/poison",
         "history recording + offline linearizability checking (rules + porcupine), hook-based schedule perturbation and park/release, race detector, AddressSanitizer"),
 "C05": ("exploration",
         "C04 recorder and checkers with one GC pass beside the clients (legal range, merge on/off, optional CancelGC placed at any of GC's hook points: before the first file, at later file boundaries and at every per-record step), final read-back, then restart with an index subset removed and a read-back against the last acknowledged write per key; 48 deterministic placements of a client set/delete/get/CancelGC at GC's per-record steps for the same key (GC goroutine parked at the hook), 8 placements of a client set of a key with the SAME 64-bit hash as the record being relocated, 2 orderings in which the periodic hint dumper is parked inside a chunk that the pass is about to clear, and 2 orderings in which a pass is requested while the store's asynchronous post-rotation flush of the previous file is still pending (parked at its entry hook) and the new head file is already on disk.",
         "DESIGN.md section 4 (C05)",
         "read errors while a position is being relocated are counted, not judged (documented 'omit it' behaviour); the hint dumper loop is left out of the race build (GC vs dumper data races are listed in DESIGN.md as observed, outside the property)",
         "history recording + offline linearizability checking, deterministic park/release placements at GC hook points, race detector, AddressSanitizer"),
 "C17": ("exploration",
         "Eligibility: generated stores (1..6 small files, controlled first-record timestamps, gaps, three head states) x request tuples (start, end, no_gc_days, merge, pretend, incl. negatives and out-of-range ids); a third of the requests go through the admin web handler (gobeansdb/web.go handleGC via httptest, defaults left out, dry run unless run=true); inventory (sha1) and FS-mutation hook log around every request; reference resolution of the range; a real pass may change only files inside the resolved range plus one earlier file that never shrinks, never the head, and only files the age limit allows. Single pass: overlap detector on gc.enter/gc.exit; six request schedules (back-to-back, concurrent, first parked after its check, first parked inside its pass, 2..5 further requests of different shapes - dry run, unknown range, real, cancel (direct and through the admin handler) - while a pass is parked at its first file, 3..6 concurrent requests), also under -race.",
         "DESIGN.md section 4 (C17)",
         "timestamps hours away from the no_gc_days boundary (the code reads the wall clock); record size at most half the data-file limit",
         "inventory + hook-log monitor with reference range oracle; hook-based overlap detector with park/release schedules; race detector"),
 "C06": ("fault_enumeration",
         "Every file-system mutation boundary of generated histories becomes a crash state: a hook copies the bucket directory before and after every hooked mutation under one mutex (plus torn variants of every data write at each 256-byte boundary and 3 unaligned cuts); a fresh process opens each snapshot and must serve, per key, exactly the newest intact record an independent scanner finds in the snapshot's data files, or refuse to start only when a data file ends in a partial record. Stage 2: every 14th served snapshot (6th in thorough) and every snapshot whose index files describe more than the data files hold is continued - the recovered store takes further writes and flushes with the snapshot hook still active (a second kill at every mutation of recovery, continuation and clean Close), is closed and a copy reopened; second-level snapshots are judged by the same oracle, the reopened copy by what recovery served plus the acknowledged stage-2 writes.",
         "DESIGN.md sections 4 (C06) and 15",
         "crash model SIGKILL = prefix of completed syscalls (no reordering, no power loss); writes to *.tmp files are not hooked; Go QuickLZ decoder used to read server-compressed records from disk",
         "crash-point enumeration by directory snapshots at hooked FS mutations + recovery in a fresh process + reference-scanner oracle"),
 "C07": ("fault_enumeration",
         "Same snapshot machinery around one GC pass (after every relocated record, truncate, source/hint removal, hint tmp create/rename, nextgc.txt, collision file; torn variants of relocated-record writes) over generated, staged and directed layouts and legal ranges (destination in place / fresh / an earlier non-full file / an earlier file that fills up so that the destination switches into the range or onto the source being read; delete records of keys without a tree entry as the last kept records of a source; observed through the GC hooks); a fresh process on every snapshot must serve exactly the pre-GC model. Stage 2: sampled recovered stores run the interrupted pass again (or another legal one), are killed a second time at every mutation, closed and reopened; all read-backs must still equal the pre-GC model.",
         "DESIGN.md sections 4 (C07) and 15",
         "as C06; no client writes during the pass",
         "crash-point enumeration inside GC + recovery in a fresh process + pre-GC reference model oracle"),
}

NOT_YET = {
}

def main():
    checks = []
    for pid in sorted(CHECKS):
        cat, text, dref, note, tech = CHECKS[pid]
        checks.append({
            "property_id": pid,
            "quick_cmd": "./check %s quick" % pid,
            "thorough_cmd": "./check %s thorough" % pid,
            "evidence_file": "/verif/evidence/%s.json" % pid,
            "replay_cmd_template": "./build/vcheck replay {path}",
            "engine": "vcheck",
            "level_claimed": {"category": cat, "text": text, "design_ref": dref},
            "level_note": note,
            "technique": tech,
        })
    allp = [json.loads(l)["id"] for l in open("/verif/properties.jsonl")]
    na = []
    for pid in allp:
        if pid not in CHECKS:
            na.append({"property_id": pid, "reason": NOT_YET.get(pid, "runtime-monitoring check designed (DESIGN.md section 4) but not built/validated yet in this session; not claimed until it is silent on the unchanged tree and fires on seeded breakage")})
    m = {
        "version": 1,
        "setup_cmd": "./setup.sh",
        "hooks": {
            "guard": "verif",
            "enable": "go build -tags verif (plus -overlay mapping /verif/harness/<pkg>/*.go into /repo/<pkg>/zz_vf_*.go; variants: plain, -race, -asan with -gcflags=all=-d=checkptr=0)",
            "baseline_off_cmd": "cd /repo && GOFLAGS=-mod=mod GOPROXY=off GOSUMDB=off go test -vet=off -count=1 -timeout 25m ./...",
            "source_commits": [l.split()[0] for l in HOOK_COMMITS],
            "add_only": True,
        },
        "engines": [{"name": "vcheck", "path": "/verif/cmd/vcheck", "serves_properties": sorted(CHECKS),
                     "kind_free_text": "driver: rebuilds the instrumented child (cmd/vfchild + harness overlay) from /repo's working tree, runs child processes with generated workloads, merges observed events, parses race/asan reports, applies known_findings.json, writes evidence"}],
        "checks": checks,
        "not_applicable": na,
        "notes": "Technique family: runtime monitoring and sanitizers. Verdicts: exit 0 held on what was observed, exit 1 VIOLATION, exit 2 INCONCLUSIVE (infrastructure). Known findings: /verif/known_findings.json.",
    }
    json.dump(m, open("/verif/MANIFEST.json", "w"), indent=1)
    print("wrote MANIFEST.json:", len(checks), "checks,", len(na), "not claimed")

main()
